"""C19 — Incremental analysis is transparent across option changes.

Oracle: over a fixed, option-sensitive file set (vlib/gen/optspace.py) a random walk through the option
space changes exactly one option per step; every step runs cppcheck with the shared
--cppcheck-build-dir and compares all findings with a run with the same options and no build dir.
A mismatch is keyed by the option whose change went unnoticed: `hash-omits:<option>`.

A systematic sweep (= replay of the listed findings) additionally takes every option through every
value change from a base state in which the option is observable, on a two-run history.
"""
import os
import shutil

from .. import cases, findings
from ..run import pmap
from ..gen import optspace

PID = 'C19'
FLAVOURS = ['mon']
META = {
    'technique': 'history monitor over option sequences: cached run (shared build dir) vs run without build dir, '
                 'one option changed per step; sensitivity of every step measured on the reference runs',
    'level_text': 'Systematic sweep of every option dimension x value change (two-run histories from an all-enabled '
                  'base state) plus sampled random walks through the option space (severities, unusedFunction/'
                  'missingInclude, --inconclusive, -D, -U, -I, --std, --language, --platform, --library, --suppress, '
                  '--inline-suppr, --max-configs, --check-level, --force) over a file set in which each option '
                  'changes the findings; evidence counts per option how many steps were sensitive.',
    'level_note': 'Only steps whose option change alters the reference findings can expose a stale cache; an option '
                  'for which no sweep step is sensitive makes the run inconclusive. -j4 sequences use the -j1 run '
                  'without build dir as reference (whole-program analysis needs -j1 or a build dir).',
    'design_ref': 'DESIGN.md §3 C19',
}


def _cached(src, bd, state, jopt):
    return cases.analyse(src, ['-q'] + optspace.render(state) + jopt +
                         ['--cppcheck-build-dir=' + bd, '--debug-analyzerinfo'] + optspace.SOURCES)


def _fresh(src, state):
    return cases.analyse(src, ['-q'] + optspace.render(state) + ['-j1'] + optspace.SOURCES)


def _hits(a):
    return a.res.otext().count('skipping analysis - loaded')


def _ok(ctx, *runs):
    for a in runs:
        if a.res.timed_out:
            ctx.inconclusive('watchdog fired: ' + a.res.cmdline()[-200:])
            return False
    return True


def _mkdirs(ctx, name):
    d = ctx.tmpdir(name)
    src = os.path.join(d, 'src')
    bd = os.path.join(d, 'bd')
    os.makedirs(bd)
    optspace.write(src)
    return d, src, bd


def _report(ctx, key, dim, prev, cur, jopt, oa, ob, extra=''):
    from .. import build
    import shlex
    exe = build.binary('mon')
    q = lambda l: ' '.join(shlex.quote(x) for x in l)
    files = {'src/' + rel: text for rel, text in optspace.FILES.items()}
    cmd = ('cd src; rm -rf ../bd; mkdir ../bd\n'
           '%s %s   # fills the cache\n%s %s   # option changed: stale\n%s %s   # reference' % (
               exe, q(['-q'] + optspace.render(prev) + ['-j1', '--cppcheck-build-dir=../bd'] + optspace.SOURCES),
               exe, q(['-q'] + optspace.render(cur) + jopt + ['--cppcheck-build-dir=../bd'] + optspace.SOURCES),
               exe, q(['-q'] + optspace.render(cur) + ['-j1'] + optspace.SOURCES)))
    ctx.violation(key,
                  'after changing %s from %r to %r between two runs on one build dir, the second run reports other '
                  'findings than a run with the same options and no build dir%s\n%s' % (
                      dim, prev[dim], cur[dim], extra, cases.fmt_diff(oa, ob, 'no-build-dir', 'cached')),
                  files=files, cmd=cmd)


def _two_state(ctx, name, prev, cur, jopt, fresh=None):
    """empty build dir: run(prev), run(cur) vs fresh(cur) -> (stale?, sensitive?, hits, oa, ob, n) or None.
    fresh: optional dict render-tuple -> Analysis of reference runs already made"""
    d, src, bd = _mkdirs(ctx, name)
    try:
        a = _cached(src, bd, prev, ['-j1'])
        c = _cached(src, bd, cur, jopt)
        fp = (fresh or {}).get(tuple(optspace.render(prev))) or _fresh(src, prev)
        fc = (fresh or {}).get(tuple(optspace.render(cur))) or _fresh(src, cur)
        if not _ok(ctx, a, c, fp, fc):
            return None
        if not (fp.xml_ok and fc.xml_ok):
            return None
        sens = findings.multiset(fp.findings) != findings.multiset(fc.findings)
        oa, ob = findings.diff(fc.findings, c.findings)
        return (bool(oa or ob) or not c.xml_ok, sens, _hits(c), oa, ob, len(fc.findings))
    finally:
        shutil.rmtree(d, ignore_errors=True)


# ------------------------------------------------------------------ systematic sweep
def _sweep(ctx):
    probes = []
    for dim, vals in sorted(optspace.DIMS.items()):
        if ctx.quick() and len(vals) > 2:
            # cycle through the values in both directions (thorough: every ordered pair)
            pairs = [(vals[i], vals[(i + 1) % len(vals)]) for i in range(len(vals))]
            pairs += [(b, a) for a, b in pairs]
        else:
            pairs = [(a, b) for a in vals for b in vals if a != b]
        for a, b in pairs:
            probes.append((dim, a, b))
    sens_by_dim = {}

    def states(p):
        dim, a, b = p
        prev = dict(optspace.BASE)
        cur = dict(optspace.BASE)
        for k, v in optspace.SWEEP_BASE.get(dim, {}).items():
            prev[k] = cur[k] = v
        prev[dim] = a
        cur[dim] = b
        return prev, cur

    # reference runs (no build dir) once per distinct option state
    distinct = {}
    for p in probes:
        for st in states(p):
            distinct.setdefault(tuple(optspace.render(st)), st)
    d0, src0, _bd0 = _mkdirs(ctx, 'sw-ref')
    keys = sorted(distinct)
    fresh = dict(zip(keys, pmap(lambda k: _fresh(src0, distinct[k]), keys, workers=8)))
    ctx.count('hist', 'sweep_reference_runs', len(keys))

    def probe(p):
        dim, a, b = p
        prev, cur = states(p)
        r = _two_state(ctx, 'sw-%d' % probes.index(p), prev, cur, ['-j1'], fresh)
        if r is None:
            return
        stale, sens, hits, oa, ob, nf = r
        ctx.ev()
        tag = '%s: %s -> %s' % (dim, a, b)
        ctx.count('sweep_steps', dim)
        if sens:
            ctx.count('sweep_sensitive_steps', dim)
            sens_by_dim[dim] = True
            if nf >= 2:
                ctx.trivial_or('sweep:' + tag)
        if stale:
            ctx.count('sweep_stale_steps', dim)
            _report(ctx, optspace.key(dim), dim, prev, cur, ['-j1'], oa, ob,
                    ' (sweep from the all-enabled base state; cache files reused: %d)' % hits)

    pmap(probe, probes, workers=8)
    for dim in optspace.DIMS:
        if not sens_by_dim.get(dim):
            ctx.inconclusive('no sweep step of option %s changed the reference findings: the file set does not make '
                             'a stale cache visible for it' % dim)


# ------------------------------------------------------------------ random walks
def _walk(ctx, idx):
    rng = ctx.subrng('walk', idx)
    d, src, bd = _mkdirs(ctx, 'w%d' % idx)
    state = optspace.random_state(rng)
    jopt = rng.choice([['-j1'], ['-j1'], ['-j4', '--executor=thread'], ['-j4', '--executor=process']])
    nsteps = 8 if ctx.quick() else 14
    prev_fresh = None
    log = []
    armed = 0
    for stepno in range(nsteps + 1):
        prev = state
        if stepno == 0:
            dim = 'initial'
        else:
            dim, state = optspace.step(rng, state)
        log.append('%s=%s' % (dim, state.get(dim)))
        c = _cached(src, bd, state, jopt)
        f = _fresh(src, state)
        if not _ok(ctx, c, f):
            return
        if not f.xml_ok or cases.crashed(f.res):
            ctx.count('skipped', 'reference-run-unusable')
            return
        ctx.ev()
        hits = _hits(c)
        sens = prev_fresh is not None and findings.multiset(prev_fresh) != findings.multiset(f.findings)
        prev_fresh = f.findings
        ctx.count('walk_steps', dim)
        if sens:
            ctx.count('walk_sensitive_steps', dim)
            if hits:
                ctx.count('walk_sensitive_steps_with_cache_reuse', dim)
            if len(f.findings) >= 2:
                armed += 1
        oa, ob = findings.diff(f.findings, c.findings)
        bad = not c.xml_ok or cases.crashed(c.res)
        rebuild = False
        if bad or oa or ob:
            key = optspace.key(dim)
            extra = ' (%s, cache files reused: %d; walk: %s)' % (' '.join(jopt), hits, ' | '.join(log))
            if bad:
                extra += '\ncached run crashed or wrote malformed XML: rc=%s %s' % (c.rc, c.res.etext()[-800:])
            else:
                storage = False
                if any(cases.is_whole_program(x[0]) for x in oa + ob):
                    # whole-program findings differ: does the difference depend on the history at all?
                    bd2 = os.path.join(d, 'bd_empty')
                    shutil.rmtree(bd2, ignore_errors=True)
                    os.makedirs(bd2)
                    r2 = _cached(src, bd2, state, jopt)
                    storage = r2.xml_ok and findings.multiset(r2.findings) == findings.multiset(c.findings)
                if storage:
                    key = 'storage-mode:%s:%s' % ('-'.join(jopt).replace('--executor=', ''), (oa or ob)[0][0])
                    extra += ('\nthe same run on an EMPTY build dir gives the same result: the difference is between '
                              'build-dir and in-memory analysis, not caused by the option history')
                elif stepno > 0 and key not in ctx.known:
                    # (listed findings are confirmed on two-run histories by the sweep already)
                    r = _two_state(ctx, 'w%d-confirm' % idx, prev, state, jopt)
                    if r is not None and not r[0]:
                        key = 'history:' + dim
                        extra += ('\nNOT reproduced on the two-run history (previous options -> these options): the '
                                  'stale state needs the longer walk above (same VERIF_SEED, walk index %d)' % idx)
            _report(ctx, key, dim, prev if stepno else state, state, jopt, oa, ob, extra)
            ctx.count('walk_stale_steps', dim)
            rebuild = True
        elif stepno > 0 and optspace.key(dim) in ctx.known:
            # exclusion naming the listed finding hash-omits:<dim>: the option is known not to enter the cache key,
            # so the cache is stale now even if this step did not show it; rebuild so that the stale state is not
            # blamed on a later option
            ctx.count('exclusions', 'build dir rebuilt after changing %s (listed finding)' % dim)
            rebuild = True
        if rebuild:
            shutil.rmtree(bd, ignore_errors=True)
            os.makedirs(bd)
            _cached(src, bd, state, ['-j1'])
    if armed >= 2:
        ctx.trivial_or('walk:%d:%s' % (idx, '|'.join(log)))
    ctx.sample({'walk': log, 'jobs': ' '.join(jopt), 'sensitive_steps_with_findings': armed})
    shutil.rmtree(d, ignore_errors=True)


def run(ctx):
    ctx.rule = ('sweep step = two runs on one build dir differing in exactly one option value (all other options at '
                'the all-enabled base state), non-trivial if the change alters the reference findings and the '
                'reference has >= 2 findings; walk = 8 (quick) / 14 (thorough) single-option changes from a random '
                'state, non-trivial if >= 2 steps altered the reference findings')
    _sweep(ctx)
    n = ctx.n(12, 200)
    pmap(lambda i: _walk(ctx, i), list(range(n)), workers=8 if ctx.quick() else 10)
