"""C18 — Incremental analysis is transparent across edit histories.

Oracle: a generated project is taken through a random edit history (token edits, line/column shifts of
sizes {1,2,255,256,257,512,65536}, comment-only edits, inline-suppression comments, header edits,
adding/removing/renaming files, touch).  After every step cppcheck runs with the shared
--cppcheck-build-dir (-j1 or -j4 thread/process) and all its findings (incl. whole-program) must equal
those of a run without build dir (-j1) on the same files.  A mismatch is attributed to the edit of that
step (the cache was consistent before it) and keyed `edit:<kind>[:<size>]`; the build dir is then
rebuilt so that later steps start consistent again.

In addition a fixed witness (/verif/known/C18/witness.c) is put through every line/column shift of
every size on every run (systematic sweep = replay of the listed findings).
"""
import os
import shutil

from .. import cases, findings
from ..run import pmap
from ..gen import projgen, edits

PID = 'C18'
FLAVOURS = ['mon']
META = {
    'technique': 'history monitor: after each edit, cached run (shared build dir, -j1/-j4) vs fresh run without '
                 'build dir; cache reuse observed through --debug-analyzerinfo',
    'level_text': 'Sampled exploration of edit histories over generated projects (token, line/column shifts of sizes '
                  '1,2,255,256,257,512,65536, comment, inline suppression, header edits, add/remove/rename file, '
                  'touch) plus a systematic sweep of every shift kind x size on a fixed witness; findings incl. '
                  'whole-program ones of every cached run must equal a run without build dir.',
    'level_note': 'The reference for -j4 steps is the -j1 run without build dir (the only mode without build dir that '
                  'performs whole-program analysis). A mismatch is attributed to the edit of the step in which it '
                  'appears; the build dir is rebuilt afterwards.',
    'design_ref': 'DESIGN.md §3 C18',
}

KNOWN_DIR = os.path.join(os.path.dirname(os.path.dirname(os.path.dirname(os.path.abspath(__file__)))), 'known', 'C18')

WITNESS = '''int g_w;
void w_np(void) {
    int *p = 0;
    *p = 1;
}
int w_zd(int x) {
    int z = 0;
    return x / z;
}
'''


def _hits(a):
    return a.res.otext().count('skipping analysis - loaded')


def _cached(src, bd, opts, jopt, sources):
    return cases.analyse(src, opts + jopt + ['--cppcheck-build-dir=' + bd, '--debug-analyzerinfo'] + sources)


def _fresh(src, opts, sources):
    return cases.analyse(src, opts + ['-j1'] + sources)


def _usable(ctx, a, what):
    if a.res.timed_out:
        ctx.inconclusive('watchdog fired: ' + what)
        return False
    return True


def _report(ctx, key, step_desc, opts, jopt, oa, ob, before, before_sources, after, after_sources, extra=''):
    import shlex
    from .. import build
    files = {}
    for rel, t in before.items():
        files['before/' + rel] = t
    for rel, t in after.items():
        files['after/' + rel] = t
    exe = build.binary('mon')
    q = lambda l: ' '.join(shlex.quote(x) for x in l)
    cmd = ('rm -rf bd; mkdir bd\n'
           '(cd before && %s %s)   # fills the cache\n'
           '(cd after && %s %s)   # run after the edit: stale\n'
           '(cd after && %s %s)   # reference without build dir' % (
               exe, q(opts + ['-j1', '--cppcheck-build-dir=../bd'] + before_sources),
               exe, q(opts + jopt + ['--cppcheck-build-dir=../bd'] + after_sources),
               exe, q(opts + ['-j1'] + after_sources)))
    ctx.violation(key,
                  'after %s the run with the shared build dir reports other findings than a run without build dir '
                  'on the same files%s\n%s' % (step_desc, extra,
                                               cases.fmt_diff(oa, ob, 'no-build-dir', 'cached')),
                  files=files, cmd=cmd)


# ------------------------------------------------------------------ systematic sweep on the witness
def _sweep(ctx):
    path = os.path.join(KNOWN_DIR, 'witness.c')
    text = open(path).read() if os.path.exists(path) else WITNESS
    opts = ['-q', '--enable=style']
    probes = [(kind, k) for kind in ('insert-lines', 'remove-lines', 'insert-columns', 'remove-columns')
              for k in edits.SIZES]

    def probe(pk):
        kind, k = pk
        d = ctx.tmpdir('sweep-%s-%d' % (kind, k))
        src = os.path.join(d, 'src')
        bd = os.path.join(d, 'bd')
        os.makedirs(src)
        os.makedirs(bd)
        lines = text.split('\n')
        if kind == 'insert-lines':
            before, after = list(lines), [''] * k + lines
        elif kind == 'remove-lines':
            before, after = [''] * k + lines, list(lines)
        elif kind == 'insert-columns':
            before = list(lines)
            after = [(' ' * k + l) if l.startswith('    ') else l for l in lines]
        else:
            before = [(' ' * k + l) if l.startswith('    ') else l for l in lines]
            after = list(lines)
        cases.write(os.path.join(src, 'w.c'), '\n'.join(before))
        a0 = _cached(src, bd, opts, ['-j1'], ['w.c'])
        cases.write(os.path.join(src, 'w.c'), '\n'.join(after))
        c = _cached(src, bd, opts, ['-j1'], ['w.c'])
        f = _fresh(src, opts, ['w.c'])
        if not (_usable(ctx, a0, 'sweep') and _usable(ctx, c, 'sweep') and _usable(ctx, f, 'sweep')):
            return
        ctx.ev()
        ctx.count('sweep', '%s:%d' % (kind, k))
        if len(f.findings) >= 2 and len(a0.findings) >= 2:
            ctx.trivial_or('sweep:%s:%d' % (kind, k))
        oa, ob = findings.diff(f.findings, c.findings)
        if oa or ob or not c.xml_ok:
            ctx.count('sweep_stale', '%s:%d' % (kind, k))
            _report(ctx, 'edit:%s:%d' % (kind, k), 'the edit %s of size %d on the witness' % (kind, k), opts, ['-j1'],
                    oa, ob, {'w.c': '\n'.join(before)}, ['w.c'], {'w.c': '\n'.join(after)}, ['w.c'],
                    extra=' (cache files reused in the stale run: %d)' % _hits(c))
        shutil.rmtree(d, ignore_errors=True)

    pmap(probe, probes, workers=6)


# ------------------------------------------------------------------ random histories
SHIFT_KINDS = ('insert-lines', 'remove-lines', 'insert-columns', 'remove-columns')


def _two_state(ctx, d, opts, jopt, before, before_sources, tree):
    """True if the mismatch reproduces with: empty build dir, run on the tree before the edit, run after it"""
    d2 = os.path.join(d, 'confirm')
    shutil.rmtree(d2, ignore_errors=True)
    src2 = os.path.join(d2, 'src')
    bd2 = os.path.join(d2, 'bd')
    os.makedirs(bd2)
    for rel, t in before.items():
        cases.write(os.path.join(src2, rel), t)
    _cached(src2, bd2, opts, ['-j1'], before_sources)
    for rel in before:
        if rel not in tree.files:
            os.unlink(os.path.join(src2, rel))
    for rel, t in tree.files.items():
        if before.get(rel) != t:
            cases.write(os.path.join(src2, rel), t)
    c = _cached(src2, bd2, opts, jopt, tree.sources)
    f = _fresh(src2, opts, tree.sources)
    shutil.rmtree(d2, ignore_errors=True)
    return (not c.xml_ok) or findings.multiset(c.findings) != findings.multiset(f.findings)


def _history(ctx, idx):
    rng = ctx.subrng('hist', idx)
    proj = projgen.gen(rng, nfiles=(2, 4 if ctx.quick() else 7), headers=True, ctu=True,
                       subdirs=rng.random() < 0.2)
    edits.unique_function_names(proj)    # exclusion: C22 witness:dupname-unusedFunction-location
    edits.prepad(rng, proj)
    d = ctx.tmpdir('h%d' % idx)
    src = os.path.join(d, 'src')
    bd = os.path.join(d, 'bd')
    os.makedirs(bd)
    tree = edits.Tree(src, proj)
    opts = ['-q', '--enable=all', '--inline-suppr']
    if rng.random() < 0.5:
        opts.append('--inconclusive')
    nsteps = 6 if ctx.quick() else 12
    fresh_fs = []
    armed_steps = 0
    log = []
    for step in range(nsteps + 1):
        before = dict(tree.files)
        before_sources = list(tree.sources)
        if step == 0:
            edit = ('initial', 0, '')
        else:
            edit = edits.random_edit(rng, tree, fresh_fs)
        key = edits.key_of(edit)
        log.append('%s %s' % (key, edit[2]))
        jopt = rng.choice([['-j1'], ['-j1'], ['-j4', '--executor=thread'], ['-j4', '--executor=process']])
        c = _cached(src, bd, opts, jopt, tree.sources)
        f = _fresh(src, opts, tree.sources)
        if not (_usable(ctx, c, 'history %d step %d' % (idx, step)) and _usable(ctx, f, 'fresh')):
            return
        if not f.xml_ok or cases.crashed(f.res):
            ctx.count('skipped', 'reference-run-unusable')
            return
        ctx.ev()
        hits = _hits(c)
        ctx.count('edits', key)
        ctx.count('runs', ' '.join(jopt))
        if hits:
            ctx.count('edits_with_cache_reuse', key)
            ctx.count('hist', 'cache_files_reused', hits)
        fresh_fs = f.findings
        for x in f.findings:
            ctx.count('finding_ids', x.id)
        if hits and len(f.findings) >= 2 and step > 0:
            armed_steps += 1
        bad = not c.xml_ok or cases.crashed(c.res)
        oa, ob = findings.diff(f.findings, c.findings)
        if bad or oa or ob:
            extra = ' (%s, cache files reused: %d; history: %s)' % (' '.join(jopt), hits, ' | '.join(log))
            if not bad and any(cases.is_whole_program(x[0]) for x in oa + ob):
                # whole-program findings differ: does the difference depend on the history at all?
                # Same run on an empty build dir:
                bd2 = os.path.join(d, 'bd_empty')
                shutil.rmtree(bd2, ignore_errors=True)
                os.makedirs(bd2)
                r2 = _cached(src, bd2, opts, jopt, tree.sources)
                if r2.xml_ok and findings.multiset(r2.findings) == findings.multiset(c.findings):
                    key = 'storage-mode:%s:%s' % ('-'.join(jopt).replace('--executor=', ''), (oa or ob)[0][0])
                    extra += ('\nthe same run on an EMPTY build dir gives the same result: the difference is between '
                              'build-dir and in-memory analysis, not caused by the edit history')
            if bad:
                extra += '\ncached run crashed or wrote malformed XML: rc=%s %s' % (c.rc, c.res.etext()[-800:])
            elif step > 0 and not key.startswith('storage-mode:') and key not in ctx.known:
                # (listed findings are confirmed on two-state histories by the sweep already)
                # confirm the attribution on the two-state history (cache of the tree before the edit -> run
                # after the edit); if that does not reproduce, the stale state stems from the longer history
                if not _two_state(ctx, d, opts, jopt, before, before_sources, tree):
                    key = 'history:' + key[len('edit:'):]
                    extra += ('\nNOT reproduced with a cache built from the tree just before this edit: the stale '
                              'state needs the longer history above (re-run with the same VERIF_SEED, history '
                              'index %d)' % idx)
            _report(ctx, key, 'edit "%s" of %s' % (key, edit[2] or 'the project'), opts, jopt, oa, ob,
                    before if step else {}, before_sources if step else [], dict(tree.files), list(tree.sources),
                    extra)
            ctx.count('stale_steps', key)
            # rebuild the cache so that the following steps start from a consistent state
            shutil.rmtree(bd, ignore_errors=True)
            os.makedirs(bd)
            _cached(src, bd, opts, ['-j1'], tree.sources)
        elif edit[0] in SHIFT_KINDS and edit[1] % 256 == 0:
            # exclusion naming the findings edit:{insert,remove}-{lines,columns}:{256,512,65536}: such an edit is
            # known to leave the cache stale even when no finding moves visibly in this step (e.g. shifted
            # prototypes in a header change CTU function ids); rebuild so that it is not blamed on a later edit
            ctx.count('exclusions', 'build dir rebuilt after a shift by a multiple of 256 (known C18 finding)')
            shutil.rmtree(bd, ignore_errors=True)
            os.makedirs(bd)
            _cached(src, bd, opts, ['-j1'], tree.sources)
    if armed_steps >= 2:
        ctx.trivial_or('hist:%d:%s' % (idx, tree.digest()))
    ctx.sample({'history': log, 'options': opts, 'files_at_end': tree.sources,
                'steps_with_cache_reuse_and_findings': armed_steps, 'findings_at_end': len(fresh_fs)})
    shutil.rmtree(d, ignore_errors=True)


def run(ctx):
    ctx.rule = ('history = generated project + 6 (quick) / 12 (thorough) random edits, each followed by a run on the '
                'shared build dir and a reference run without build dir; non-trivial history = at least 2 steps in '
                'which the cached run reused at least one cache file (seen in --debug-analyzerinfo output) and the '
                'reference reported >= 2 findings. Sweep probe = fixed witness, one shift kind x size; non-trivial '
                'if both runs report >= 2 findings.')
    _sweep(ctx)
    n = ctx.n(36, 400)
    pmap(lambda i: _history(ctx, i), list(range(n)), workers=6 if ctx.quick() else 10)
