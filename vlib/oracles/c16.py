"""C16 — The thread executor is free of data races.

Monitor: the ThreadSanitizer build of cppcheck (`tsan` flavour) is run with --executor=thread
-j{2,4,8,16,32} over generated multi-file projects and slices of /repo/lib/*.cpp with the option mixes
that touch the shared state named by the property (inline suppressions, shared command-line
suppressions, --showtime, --enable=all --inconclusive, build dir, XML/text output, several libraries),
under seeded scheduling perturbation (hook H2). TSAN_OPTIONS=halt_on_error=0:log_path=...; every
report block (data race, lock-order inversion, mutex misuse, ...) is parsed, reduced to a signature
(report type + innermost cppcheck frame of each stack, no line numbers) and any report with a
cppcheck frame is a violation `race:<signature>`.
A canary (harness/tsan_canary.cpp, a deliberate race) proves on every run that TSan works in this
sandbox and that the report parser sees its reports. Evidence counts, from the H2 event log, the
files in flight at the same time and the distinct completion orders, i.e. that real concurrency happened.
"""
import os
import re
import shutil

from .. import build, cases
from .. import run as vrun
from ..run import pmap
from ..core import sha1, VERIF
from ..gen import projgen, supprgen

PID = 'C16'
FLAVOURS = ['tsan']
META = {
    'technique': 'ThreadSanitizer build of the real CLI, thread executor, seeded schedule perturbation (hook H2); '
                 'report blocks parsed and deduplicated by cppcheck-frame signature',
    'level_text': 'Sampled exploration: generated projects (4-24 files, shared headers, inline suppressions) and '
                  'slices of /repo/lib/*.cpp are analysed with -j2..32 under TSan with the option mixes that exercise '
                  'the shared suppression list, duplicate filter, timers, output streams, library data and the build '
                  'dir; each case runs under several H2 schedule seeds. Evidence: overlapped file analyses, distinct '
                  'completion orders, TSan canary.',
    'level_note': 'TSan is happens-before based: it reports races between accesses the workload really performs in '
                  'one run (in either order); code never run concurrently by the workload is not judged. Schedules '
                  'are perturbed, not enumerated.',
    'design_ref': 'DESIGN.md §3 C16',
}

TIMEOUT = 900
CANARY_SRC = os.path.join(VERIF, 'harness', 'tsan_canary.cpp')
REPO_PREFIXES = tuple(sorted({'/repo/', os.path.realpath(build.REPO).rstrip('/') + '/'}))

_HDR = re.compile(r'^WARNING: ThreadSanitizer: (.+?) \(pid=\d+\)')
_FRAME = re.compile(r'^\s+#(\d+) (.+?) (\S+?)(?::(\d+))?(?::(\d+))? \((\S+?)\+0x[0-9a-f]+\)')
_FRAME2 = re.compile(r'^\s+#(\d+) (.+) \((\S+?)\+0x[0-9a-f]+\)')


class Report:
    def __init__(self, kind):
        self.kind = kind
        self.stacks = []   # list of (title, [(func, file)])
        self.text = []


def parse_tsan(text):
    """-> list[Report] from the concatenated text of TSan log files"""
    reps = []
    cur = None
    stack = None
    for line in text.splitlines():
        m = _HDR.match(line)
        if m:
            cur = Report(m.group(1))
            reps.append(cur)
            stack = None
        if cur is None:
            continue
        cur.text.append(line)
        if line.startswith('SUMMARY: ThreadSanitizer'):
            cur = None
            continue
        fm = _FRAME.match(line) or None
        if fm:
            if stack is None:
                stack = ('', [])
                cur.stacks.append(stack)
            stack[1].append((fm.group(2), fm.group(3)))
            continue
        fm2 = _FRAME2.match(line)
        if fm2:
            if stack is None:
                stack = ('', [])
                cur.stacks.append(stack)
            stack[1].append((fm2.group(2), fm2.group(3)))
            continue
        if line.startswith('  ') and line.rstrip().endswith(':') and not line.startswith('    '):
            stack = (line.strip(), [])
            cur.stacks.append(stack)
        elif not line.strip():
            stack = None
    return reps


def _in_code(path, prefixes):
    return any(path.startswith(p) for p in prefixes)


def _clean_func(f):
    f = re.sub(r'\(.*$', '', f)            # drop parameter list
    f = re.sub(r'<[^<>]*>', '<>', f)
    f = re.sub(r'<[^<>]*>', '<>', f)
    return f.strip()


def signature(rep, prefixes):
    """(signature text or None if no frame of the report is in the code under test)"""
    tops = []
    for title, frames in rep.stacks:
        t = title.lower()
        # stacks that describe *where* things were created are not part of the identity
        if t.startswith(('location is', 'thread t', 'mutex m')) and 'created' in t or t.startswith('location is'):
            continue
        for func, path in frames:
            if _in_code(path, prefixes):
                tops.append(_clean_func(func))
                break
    if not tops:
        return None
    kind = rep.kind.split(' (')[0].strip().replace(' ', '-')
    return '%s:%s' % (kind, '|'.join(sorted(set(tops[:2])) if kind == 'data-race' else tops[:3]))


# ------------------------------------------------------------------ canary
def _canary(ctx):
    """deliberate race built with the same compiler/sanitizer: TSan must report it, the parser must see it"""
    d = ctx.tmpdir('canary')
    exe = os.path.join(d, 'canary')
    r = vrun.run(['g++', '-O1', '-g1', '-fsanitize=thread', '-pthread', CANARY_SRC, '-o', exe],
                 env=vrun.base_env(), timeout=300)
    if r.rc != 0:
        ctx.inconclusive('TSan canary does not build: %s' % r.etext()[-300:])
        return False
    logp = os.path.join(d, 'tsan')
    env = vrun.base_env({'TSAN_OPTIONS': 'halt_on_error=0:log_path=%s:history_size=7:exitcode=0' % logp})
    r = vrun.run([exe], env=env, timeout=300)
    text = _collect(d)
    reps = parse_tsan(text)
    sigs = [signature(x, (os.path.dirname(CANARY_SRC) + '/',)) for x in reps]
    ok = any(s and s.startswith('data-race:') and 'canary_bump' in s for s in sigs)
    ctx.count('canary', 'race-reported-and-parsed' if ok else 'NOT-detected')
    if not ok:
        ctx.inconclusive('TSan canary race was not reported/parsed (rc=%s, %d report blocks): TSan is not '
                         'observing in this environment' % (r.rc, len(reps)))
    shutil.rmtree(d, ignore_errors=True)
    return ok


def _collect(d):
    out = []
    for n in sorted(os.listdir(d)):
        if n.startswith('tsan.'):
            out.append(open(os.path.join(d, n), errors='replace').read())
    return '\n'.join(out)


# ------------------------------------------------------------------ workloads
LIBS = ['posix', 'gnu', 'qt', 'boost', 'windows', 'zlib', 'openssl', 'sqlite3']


def _lib_files(rng, n):
    """small translation units of cppcheck itself (large ones take minutes under TSan)"""
    allf = []
    for f in sorted(os.listdir('/repo/lib')):
        p = os.path.join('/repo/lib', f)
        if f.endswith('.cpp') and os.path.getsize(p) < 16000:
            allf.append(p)
    return rng.sample(allf, min(n, len(allf)))


def _mkcase(ctx, ci):
    rng = ctx.subrng('case', ci)
    C = type('Case', (), {})()
    C.ci = ci
    C.dir = ctx.tmpdir('c%d' % ci)
    C.src = os.path.join(C.dir, 'src')
    os.makedirs(C.src)
    # quick tier: exactly one slice of /repo/lib (3 small files; they take minutes under TSan on a busy machine)
    lib_slice = (ci == 0) if ctx.quick() else rng.random() < 0.3
    opts = ['--executor=thread']
    C.jobs = rng.choice([2, 4, 8, 16, 32])
    opts.append('-j%d' % C.jobs)
    if lib_slice:
        C.kind = 'repo-lib-slice'
        C.sources = _lib_files(rng, 3 if ctx.quick() else rng.randint(4, 8))
        opts += ['-I/repo/lib', '--inline-suppr', '--enable=all', '--inconclusive', '-D__GNUC__', '--max-configs=2']
        C.digest = sha1(*C.sources)
        base_findings = []
    else:
        C.kind = 'projgen'
        proj = projgen.gen(rng, nfiles=(4, 10) if ctx.quick() else (6, 24), headers=True, ctu=True,
                           nsnip=(2, 5))
        proj.write(C.src)
        en = rng.choice(['all', 'all', 'warning,style,performance,portability,information'])
        opts += ['--enable=' + en]
        if rng.random() < 0.6:
            opts.append('--inconclusive')
        a0 = cases.analyse(C.src, ['-q', '--enable=' + en, '-j1'] + proj.sources, flavour='tsan', timeout=TIMEOUT,
                           env={'TSAN_OPTIONS': 'halt_on_error=0:exitcode=0:log_path=%s' % os.path.join(C.dir, 'pre')})
        base_findings = a0.findings
        if rng.random() < 0.8:
            proj, _ins = supprgen.add_inline(rng, proj, base_findings, frac=0.4, unmatched=rng.randint(0, 4))
            shutil.rmtree(C.src)
            proj.write(C.src)
            opts.append('--inline-suppr')
        C.sources = proj.sources
        C.digest = proj.digest()
    # shared (global) suppressions: matched and unmatched, many
    sup = []
    for _ in range(rng.choice([0, 3, 12])):
        for o in supprgen.cmdline_set(rng, base_findings, C.sources if C.kind == 'projgen' else [], n=(1, 1)):
            if o not in sup:     # a duplicate suppression is a command line error
                sup.append(o)
    opts += sup
    st = rng.choice([None, 'summary', 'top5_summary', 'top5_file', 'file', 'file-total'])
    if st:
        opts.append('--showtime=' + st)
    for lib in rng.sample(LIBS, rng.choice([0, 1, 3])):
        opts.append('--library=' + lib)
    out = rng.choice(['xml', 'text', 'text-verbose', 'xml'])
    if out == 'xml':
        opts.append('--xml')
    elif out == 'text-verbose':
        opts.append('-v')
    if rng.random() < 0.5:
        opts.append('-q')
    C.use_bd = rng.random() < 0.4
    C.opts = opts
    return C


def _inflight(logpath):
    """(max files in flight, completion order, overlapped file analyses) from the H2 event log.
    The hand-out order is always the command line order (ThreadData::next); what varies between
    schedules is which analyses overlap and the order in which they complete."""
    cur = 0
    mx = 0
    order = []
    overl = 0
    if os.path.exists(logpath):
        for line in open(logpath, errors='replace'):
            t = line.rstrip('\n').split(' ', 3)
            if len(t) < 4:
                continue
            if t[2] == 'thread.handout':
                cur += 1
                if cur >= 2:
                    overl += 1
                mx = max(mx, cur)
            elif t[2] == 'thread.done':
                cur -= 1
                order.append(t[3])
    return mx, tuple(order), overl


def _one_run(ctx, C, si):
    d = os.path.join(C.dir, 'r%d' % si)
    os.makedirs(d)
    opts = list(C.opts)
    if C.use_bd:
        bd = os.path.join(d, 'bd')
        os.makedirs(bd)
        opts.append('--cppcheck-build-dir=' + bd)
    schedlog = os.path.join(d, 'sched.log')
    rng = ctx.subrng('sched', C.ci, si)
    env = {'TSAN_OPTIONS': 'halt_on_error=0:log_path=%s:history_size=7:second_deadlock_stack=1:exitcode=0'
                           % os.path.join(d, 'tsan'),
           'VERIF_SCHED_SEED': str(ctx.seed * 100003 + C.ci * 101 + si),
           'VERIF_SCHED_MAX_US': str(rng.choice([0, 200, 2000, 10000])),
           'VERIF_SCHED_LOG': schedlog}
    if os.path.exists(INTERPOSER_SO):
        env['LD_PRELOAD'] = INTERPOSER_SO
    r = vrun.cppcheck(opts + C.sources, flavour='tsan', cwd=C.src, env=env, timeout=TIMEOUT)
    ctx.ev()
    if r.timed_out:
        ctx.inconclusive('watchdog fired (case %d run %d, %s -j%d)' % (C.ci, si, C.kind, C.jobs))
        return None
    if b'cppcheck: error:' in r.out[:4000]:
        ctx.count('skipped', 'command-line-rejected: ' + r.otext().splitlines()[0][:80])
        return None
    mx, order, overl = _inflight(schedlog)
    ctx.count('runs', '%s:j%d' % (C.kind, C.jobs))
    ctx.count('concurrency', 'file-analyses-started-while-another-was-in-flight', overl)
    ctx.count('max_files_in_flight', str(mx))
    for o in C.opts:
        if o.startswith(('--showtime', '--library', '--xml', '--inline-suppr', '--inconclusive', '-v')):
            ctx.count('options_exercised', o)
    if C.use_bd:
        ctx.count('options_exercised', '--cppcheck-build-dir')
    ctx.count('options_exercised', 'shared --suppress x%d' % sum(1 for o in C.opts if o.startswith('--suppress=')))
    text = _collect(d)
    reps = parse_tsan(text)
    ctx.count('tsan_report_blocks', 'total', len(reps))
    if r.rc is not None and r.rc < 0:
        ctx.violation('crash:signal-%d:%s' % (-r.rc, C.digest),
                      'the tsan build died from signal %d\n%s' % (-r.rc, r.etext()[-1500:]),
                      files={'project': '@' + C.src} if C.kind == 'projgen' else None,
                      cmd='cd project && ' + r.cmdline())
    seen = set()
    for rep in reps:
        sig = signature(rep, REPO_PREFIXES)
        if sig is None:
            ctx.count('tsan_report_blocks', 'no-cppcheck-frame:' + rep.kind)
            continue
        if sig in seen:
            continue
        seen.add(sig)
        ctx.count('tsan_signatures', sig)
        files = {'tsan_report.txt': '\n'.join(rep.text) + '\n'}
        if C.kind == 'projgen':
            files['project'] = '@' + C.src
        ctx.violation('race:' + sig,
                      'ThreadSanitizer: %s (%s, -j%d, %d files)\n%s'
                      % (rep.kind, C.kind, C.jobs, len(C.sources), '\n'.join(rep.text[:60])),
                      files=files,
                      cmd='cd project && TSAN_OPTIONS=halt_on_error=0:history_size=7 VERIF_SCHED_SEED=%s '
                          'VERIF_SCHED_MAX_US=%s %s' % (env['VERIF_SCHED_SEED'], env['VERIF_SCHED_MAX_US'], r.cmdline()))
    shutil.rmtree(d, ignore_errors=True)
    return (mx, order, overl, len(reps))


INTERPOSER_SO = os.path.join(VERIF, '.build', 'tsan_stdio.so')


def _do_case(ctx, ci):
    C = _mkcase(ctx, ci)
    nsched = 2 if ctx.quick() else 3
    res = [_one_run(ctx, C, si) for si in range(nsched)]
    res = [x for x in res if x]
    if res:
        orders = set(x[1] for x in res)
        ctx.count('hist', 'distinct-completion-orders-per-case:%d' % len(orders))
        mx = max(x[0] for x in res)
        if mx >= 2 and len(C.sources) >= 3:
            ctx.trivial_or('%s:%s:j%d' % (C.digest, ' '.join(C.opts), C.jobs))
        ctx.sample({'kind': C.kind, 'files': len(C.sources), 'jobs': C.jobs, 'build_dir': C.use_bd,
                    'options': C.opts, 'schedules': len(res), 'max_files_in_flight': mx,
                    'distinct_completion_orders': len(orders), 'tsan_report_blocks': sum(x[3] for x in res)})
    shutil.rmtree(C.dir, ignore_errors=True)


def run(ctx):
    ctx.rule = ('case = (file set, option mix, job count) run under 2-3 H2 schedule seeds with the TSan build; '
                'non-trivial = the H2 event log shows >=2 files in flight at the same time (and >=3 files) and the '
                'TSan canary race was reported and parsed in this run of the check')
    if not _canary(ctx):
        return
    ctx.assumptions.append('stdio interposer (harness/tsan_stdio.c) %s' %
                           ('preloaded' if os.path.exists(INTERPOSER_SO) else 'not needed so far: no report inside stdio seen'))
    n = ctx.n(6, 120)
    pmap(lambda ci: _do_case(ctx, ci), range(n), workers=3 if ctx.quick() else 4)
