"""C08 — Name resolution agrees with the compiler.

Differential monitor: scope-heavy generated programs (vlib/gen/scopegen.py) are analysed by
`cppcheck --dump`; every token that cppcheck links to a variable (`variable=`) or to a function
(`function=`) is compared with the declaration clang binds the same source position to
(DeclRefExpr / MemberExpr `referencedDecl`, callee declarations): the `<var>`'s nameToken location
must be clang's declaration location (or a redeclaration of it), the `<function>`'s tokenDef/token
location must be one of clang's (re)declarations of the selected function, and two different clang
declarations never share a varId.  Tokens cppcheck leaves unlinked are not judged.
"""
import os
import shutil

from .. import run as vrun
from ..core import sha1
from ..gen import scopegen
from ..models import cdump, exprcmp

PID = 'C08'
FLAVOURS = ['mon']
META = {
    'technique': 'differential monitor: cppcheck --dump variable/function links vs clang JSON AST referenced declarations',
    'level_text': 'Sampled exploration: generated C and C++ programs built from a tiny identifier pool so that shadowing '
                  'is the rule (globals vs parameters vs nested-block locals, for/if-init variables, struct members '
                  'named like variables, self-referencing initialisers, forward-declared functions with differently '
                  'named parameters; C++: namespaces and using, class members used unqualified in inline and '
                  'out-of-class methods, static members, overload sets differing in arity and parameter type, '
                  'default arguments, lambdas with captures). Every variable/function link cppcheck reports is '
                  'compared with the declaration clang resolves at the same source position.',
    'level_note': 'Sampled. Only tokens cppcheck links are judged; positions where clang has neither a reference nor '
                  'a declaration (e.g. tokens synthesised by cppcheck) are counted as unjudged. Redeclarations of one '
                  'entity are one declaration (clang previousDecl chains).',
    'design_ref': 'DESIGN.md §3 C08',
}

FINDING_EXCLUSIONS = {      # generator exclusion -> finding key
    'member-vs-global': 'prog:member_vs_global.cpp',
}


class ClangRefs:
    """positions (line, col) -> declaration classes, from clang's JSON AST"""

    def __init__(self, root, text):
        self.lm = exprcmp.LineMap(text)
        self.decl_at = {}      # pos -> decl id   (name token of a declaration)
        self.ref_at = {}       # pos -> decl id   (name token of a use)
        self.kind = {}         # decl id -> kind
        self.prev = {}         # decl id -> previous decl id
        self.name = {}
        self.walk(root, None)
        # union redeclarations
        self.cls = {}
        for d in self.kind:
            r = d
            seen = set()
            while r in self.prev and r not in seen:
                seen.add(r)
                r = self.prev[r]
            self.cls[d] = r
        self.cls_pos = {}
        for pos, d in self.decl_at.items():
            self.cls_pos.setdefault(self.cls.get(d, d), set()).add(pos)

    def pos(self, loc):
        off = exprcmp.loc_off(loc)
        return self.lm.pos(off) if off is not None else None

    def walk(self, n, parent):
        k = n.get('kind', '')
        if k.endswith('Decl') and 'id' in n and not n.get('isImplicit'):
            d = n['id']
            self.kind[d] = k
            self.name[d] = n.get('name')
            if 'previousDecl' in n:
                self.prev[d] = n['previousDecl']
            if n.get('name') and 'loc' in n and k in ('VarDecl', 'ParmVarDecl', 'FieldDecl', 'FunctionDecl',
                                                      'CXXMethodDecl', 'EnumConstantDecl', 'CXXConstructorDecl'):
                p = self.pos(n['loc'])
                if p:
                    self.decl_at.setdefault(p, d)
        elif k == 'DeclRefExpr':
            rd = n.get('referencedDecl', {})
            fd = n.get('foundDecl')
            if rd.get('id'):
                p = self.pos(n['range']['end'])      # name token is the last token (qualifiers come first)
                if p:
                    self.ref_at.setdefault(p, rd['id'])
        elif k == 'MemberExpr':
            rid = n.get('referencedMemberDecl')
            if rid:
                p = self.pos(n['range']['end'])
                if p:
                    self.ref_at.setdefault(p, rid)
        for c in n.get('inner', []):
            if isinstance(c, dict) and c:
                self.walk(c, n)

    def target(self, pos):
        """declaration class clang associates with the name token at pos (use or declaration), or None"""
        d = self.ref_at.get(pos)
        how = 'use'
        if d is None:
            d = self.decl_at.get(pos)
            how = 'decl'
        if d is None:
            return None, None
        return self.cls.get(d, d), how


def keyof(text, pos):
    return 'prog:%s:%d:%d' % (sha1(text), pos[0], pos[1])


def check_program(ctx, d, name, text, lang, known_key=None):
    path = os.path.join(d, name)
    with open(path, 'w') as f:
        f.write(text)
    r = vrun.cppcheck(['--dump', '-q', '--language=' + lang, name], cwd=d)
    if r.timed_out:
        ctx.inconclusive('watchdog fired on %s' % name)
        return 0
    root, cerr = exprcmp.clang_ast(path, lang)
    if root is None:
        ctx.count('dropped', 'program: clang rejects it')
        ctx.sample({'clang-rejected': cerr[:300]})
        return 0
    try:
        dump = cdump.load(path + '.dump')
    except Exception as e:
        ctx.count('dropped', 'program: dump missing/unreadable (%s)' % type(e).__name__)
        return 0
    os.unlink(path + '.dump')
    if b'syntaxError' in r.err or not dump.ok:
        ctx.count('dropped', 'program: cppcheck does not accept it')
        ctx.sample({'cppcheck-rejects': r.etext()[:200]})
        return 0
    cr = ClangRefs(root, text)
    lines = text.split('\n')
    judged = 0
    nshadow = 0
    varid_decls = {}      # varId -> {decl class: example pos}
    for t in dump.tokens:
        if t.col <= 0 or t.get('type') != 'name':
            continue
        pos = (t.line, t.col)
        vid = t.get('variable')
        fid = t.get('function')
        varid = t.get('varId')
        if not vid and not fid and not varid:
            continue
        tgt, how = cr.target(pos)
        if tgt is None:
            ctx.count('unjudged', 'linked token where clang has neither a use nor a declaration')
            continue
        tk = cr.kind.get(tgt, '?')
        where = '%s:%d:%d `%s` in: %s' % (name, t.line, t.col, t.str, lines[t.line - 1].strip()[:100])
        if vid and vid != '0':
            v = dump.vars.get(vid)
            nt = dump.tok(v.get('nameToken')) if v else None
            if nt is not None and tk in ('VarDecl', 'ParmVarDecl', 'FieldDecl'):
                judged += 1
                ctx.count('judged', 'variable ' + how)
                vp = (nt.line, nt.col)
                okpos = cr.cls_pos.get(tgt, set())
                if len([p for p in cr.decl_at if cr.name.get(cr.decl_at[p]) == t.str]) > 1:
                    nshadow += 1
                if vp not in okpos:
                    what = ('%s\n  cppcheck links the token to the variable declared at %d:%d (`%s`)\n'
                            '  clang binds it to the %s declared at %s'
                            % (where, vp[0], vp[1], lines[vp[0] - 1].strip()[:100], tk,
                               ', '.join('%d:%d' % p for p in sorted(okpos))))
                    exprcmp.report(ctx, known_key or keyof(text, pos), what, files={name: text},
                                  cmd='cppcheck --dump -q --language=%s %s' % (lang, name))
            elif nt is not None and tk not in ('VarDecl', 'ParmVarDecl', 'FieldDecl'):
                judged += 1
                what = '%s\n  cppcheck links the token to a variable (declared at %d:%d); clang binds it to a %s' % (
                    where, nt.line, nt.col, tk)
                exprcmp.report(ctx, known_key or keyof(text, pos), what, files={name: text},
                              cmd='cppcheck --dump -q --language=%s %s' % (lang, name))
        if varid and varid != '0' and tk in ('VarDecl', 'ParmVarDecl', 'FieldDecl'):
            varid_decls.setdefault(varid, {}).setdefault(tgt, pos)
        if fid and fid != '0':
            f = dump.funcs.get(fid)
            if f and tk in ('FunctionDecl', 'CXXMethodDecl'):
                judged += 1
                ctx.count('judged', 'function ' + how)
                fps = set()
                for a in ('tokenDef', 'token'):
                    ft = dump.tok(f.get(a)) if f.get(a) and f.get(a) != '0' else None
                    if ft is not None:
                        fps.add((ft.line, ft.col))
                okpos = cr.cls_pos.get(tgt, set())
                if fps and not (fps & okpos):
                    what = ('%s\n  cppcheck links the call/name to the function declared at %s\n'
                            '  clang selects the %s declared at %s'
                            % (where, ', '.join('%d:%d' % p for p in sorted(fps)), tk,
                               ', '.join('%d:%d `%s`' % (p[0], p[1], lines[p[0] - 1].strip()[:60]) for p in sorted(okpos))))
                    exprcmp.report(ctx, known_key or keyof(text, pos), what, files={name: text},
                                  cmd='cppcheck --dump -q --language=%s %s' % (lang, name))
            elif f and tk in ('VarDecl', 'ParmVarDecl', 'FieldDecl'):
                judged += 1
                what = '%s\n  cppcheck links the token to a function; clang binds it to a %s' % (where, tk)
                exprcmp.report(ctx, known_key or keyof(text, pos), what, files={name: text},
                              cmd='cppcheck --dump -q --language=%s %s' % (lang, name))
    for varid, decls in varid_decls.items():
        if len(decls) > 1:
            ps = sorted(decls.values())
            what = ('%s: varId %s is shared by %d different declarations (clang): tokens at %s'
                    % (name, varid, len(decls), ', '.join('%d:%d `%s`' % (p[0], p[1], lines[p[0] - 1].strip()[:50]) for p in ps)))
            exprcmp.report(ctx, known_key or keyof(text, ps[1]) + ':varid', what, files={name: text},
                          cmd='cppcheck --dump -q --language=%s %s' % (lang, name))
    ctx.count('hist_links_judged_per_program', min(judged // 50 * 50, 1000))
    if judged >= 20 and nshadow >= 5:
        ctx.trivial_or(sha1(text))
    return judged


def _case(ctx, idx, excl):
    rng = ctx.subrng('prog', idx)
    lang = 'c' if idx % 2 == 0 else 'c++'
    text = scopegen.gen(rng, lang, excl)
    d = ctx.tmpdir('p%d' % idx)
    n = check_program(ctx, d, 'p%d%s' % (idx, '.cpp' if lang == 'c++' else '.c'), text, lang)
    ctx.ev()
    ctx.count('programs', lang)
    ctx.count('links_judged', lang, n)
    if idx < 2:
        ctx.sample({'lang': lang, 'lines': text.count('\n'), 'head': text[:400]})
    shutil.rmtree(d, ignore_errors=True)


def replay_witnesses(ctx):
    kd = os.path.join(os.path.dirname(os.path.dirname(os.path.dirname(os.path.abspath(__file__)))), 'known', 'C08')
    idx = os.path.join(kd, 'INDEX')
    if not os.path.exists(idx):
        return
    for l in open(idx):
        l = l.strip()
        if not l or l.startswith('#'):
            continue
        fn, key = l.split(None, 1)
        text = open(os.path.join(kd, fn)).read()
        d = ctx.tmpdir('w_' + fn.replace('.', '_'))
        check_program(ctx, d, fn, text, 'c++' if fn.endswith('.cpp') else 'c', known_key=key)
        ctx.count('witness', 'replayed')


def run(ctx):
    ctx.rule = ('case = one generated program; non-trivial = program with >= 20 judged links of which >= 5 are to a '
                'name that is declared more than once (shadowing / overloading actually exercised)')
    ctx.cov['finding_exclusions'] = dict(FINDING_EXCLUSIONS)
    replay_witnesses(ctx)
    n = ctx.n(200, 10000)
    excl = sorted(FINDING_EXCLUSIONS)
    vrun.pmap(lambda i: _case(ctx, i, excl), range(n), workers=8)
