"""C25 — Exit status reflects the reported findings.

Invariant armed on generated runs (projects x --error-exitcode=E in {absent,0,1,7,255} x message
suppressions x exit-code suppressions x executors x output formats, never --safety):
let R = findings actually reported by the run (parsed from the output format in use;
`checkersReport` is not a finding) that no exit-code suppression matches (decided by the model
vlib/models/suppress.py). Then the exit status is E if R is non-empty and E was given, else 0.
Invalid command lines (unknown option, missing argument, conflicting options, no input) exit 1.
"""
import json
import os
import shutil

from .. import cases, findings, run as runner
from ..core import sha1
from ..gen import supprgen2
from ..models import suppress as sm

PID = 'C25'
FLAVOURS = ['mon']
META = {
    'technique': 'run monitor: process exit status vs the findings parsed from the same run, exit-code suppressions '
                 'decided by the executable suppression model',
    'level_text': 'Sampled exploration: generated projects x --error-exitcode values x message/exit-code suppression '
                  'sets x {-j1, thread, process} x {template text, XML, SARIF}; plus a table of invalid command lines '
                  'that must exit 1. Each run is judged on its own output.',
    'level_note': 'R is read from the run\'s own report; SARIF omits findings without a location, so SARIF runs are '
                  'judged only in the direction "non-empty R => exit E". Exit-code suppression forms the manual leaves '
                  'open are counted, not judged. --safety is out of scope.',
    'design_ref': 'DESIGN.md §3 C25',
}

KNOWN_DIR = os.path.join(os.path.dirname(os.path.dirname(os.path.dirname(os.path.abspath(__file__)))), 'known', 'C25')
EXIT_VALUES = [None, 0, 1, 7, 255]

INVALID = [
    ['--frobnicate'], ['--error-exitcode='], ['--error-exitcode=x'], ['-j0'], ['-j'], ['--std=c++99x'],
    ['--platform=nosuch'], ['--enable=nosuch'], ['--xml', '--output-format=sarif'], ['--suppress='],
    ['--suppressions-list=nosuch.txt'], ['--exitcode-suppressions=nosuch.txt'], ['--suppress-xml=nosuch.xml'],
    ['--template'], ['--xml-version=9'], ['--max-configs=0'], ['--library=nosuch'], ['--check-level=foo'],
    ['--executor=foo'], ['--language=java'], ['--output-format=foo'], ['--showtime=x'], ['--max-ctu-depth=x'],
    ['--suppress=zerodiv', '--suppress=zerodiv'], ['--project=nosuch.json'],
]


def _finding(fid, file, line, sev=''):
    return findings.Finding(fid, sev, False, '', '', '', ((file, line, 0, ''),) if file else (), (), '')


def observe(res, fmt):
    """-> list of Finding-like objects reported by the run, or None if the report is unreadable"""
    if fmt == 'xml':
        try:
            return findings.parse_xml(res.err)
        except findings.XmlError:
            return None
    if fmt == 'text':
        out = []
        for t in findings.parse_template(res.err):
            file = '' if (t.file == 'nofile' and t.line == 0) else t.file
            out.append(_finding(t.id, file, t.line, t.severity))
        return out
    if fmt == 'sarif':
        text = res.etext()
        i = text.find('{')
        if i < 0:
            return None
        try:
            doc = json.loads(text[i:])
        except ValueError:
            return None
        out = []
        for r in doc['runs'][0].get('results', []):
            locs = r.get('locations', [])
            file, line = '', 0
            if locs:
                pl = locs[-1]['physicalLocation']
                file = pl['artifactLocation']['uri']
                line = pl.get('region', {}).get('startLine', 0)
            if r.get('ruleId') not in findings.NON_FINDINGS:
                out.append(_finding(r.get('ruleId', ''), file, line))
        return out
    raise ValueError(fmt)


FORMAT_ARGS = {'xml': ['--xml'], 'text': ['--template=' + findings.TEMPLATE], 'sarif': ['--output-format=sarif']}


def judge(ctx, tag, res, fmt, E, supprs, files, sig):
    rep = observe(res, fmt)
    if rep is None:
        if cases.crashed(res):
            ctx.violation('rule:crash:%s' % sha1(sig), 'run crashed (rc=%s)\n%s' % (res.rc, res.etext()[-600:]),
                          files=files, cmd=res.cmdline())
        else:
            ctx.count('skipped', 'unreadable-%s-report' % fmt)
        return None
    definite = []
    maybe = []
    for f in rep:
        n = sm.exitcode_neutral(supprs, f)
        if n is False:
            definite.append(f)
        elif n is None:
            maybe.append(f)
    want = None
    if E is None or E == 0:
        want = 0
    elif definite:
        want = E
    elif maybe:
        ctx.count('undecided', 'exitcode-suppression-form')
        return None
    elif fmt == 'sarif':
        ctx.count('sarif', 'empty-R: rc=%s (not judged)' % ('0' if res.rc == 0 else 'E'))
        return None
    else:
        want = 0
    ctx.count('verdicts', 'E=%s %s -> expect %d' % (E, 'R!=0' if definite else 'R=0', want))
    if res.rc != want:
        neutral = [f.id for f in rep if f not in definite and f not in maybe]
        rule = ('findings-but-exit-0' if want else
                ('exit-nonzero-without-error-exitcode' if E in (None, 0) else 'no-counting-finding-but-exit-E'))
        ctx.violation('rule:%s:%s' % (rule, sha1(sig, tag)),
                      'exit status %s, expected %s: --error-exitcode=%s, %d reported findings, %d of them not matched by an '
                      'exit-code suppression (%s), exit-code-neutral ids: %s'
                      % (res.rc, want, E, len(rep), len(definite), ', '.join(sorted(set(f.id for f in definite))[:6]),
                         sorted(set(neutral))[:6]), files=files, cmd='cd project && ' + res.cmdline())
    return (len(rep), len(definite))


def _case(ctx, idx):
    rng = ctx.subrng('case', idx)
    d = ctx.tmpdir('c%d' % idx)
    neutralize = rng.random() < 0.3
    c = supprgen2.build_case(ctx, rng, d, exitcode=(0, 0) if neutralize else (0, 3),
                             enable=rng.choice(['warning,style', 'style,performance,portability', None]) if neutralize else None)
    if c is None:
        shutil.rmtree(d, ignore_errors=True)
        return
    if neutralize:
        # an exit-code suppression for every id of the ground truth (sometimes all but one)
        ids = sorted(set(f.id for f in c.f0.findings))
        if ids and rng.random() < 0.3:
            ids.remove(rng.choice(ids))
        for i in ids:
            c.args.append('--exitcode-suppress=' + i)
            c.supprs.append(sm.parse_spec(i, 'cmd', exitcode_only=True))
        ctx.count('cases', 'every-id-exit-code-neutral' )
    # finding-keyed generator exclusion (known/C25.txt rule:exitcode-suppression-ignored-for-unmatchedSuppression):
    # an exit-code suppression that matches the unmatchedSuppression report itself is not generated
    if any(s.exitcode_only and sm.glob_match(s.id, 'unmatchedSuppression') for s in c.supprs):
        ctx.count('generator-exclusions', 'exit-code suppression matching unmatchedSuppression '
                                          '(known finding rule:exitcode-suppression-ignored-for-unmatchedSuppression)')
        shutil.rmtree(d, ignore_errors=True)
        return
    files = {'project': '@' + c.src, 'opt': '@' + os.path.join(d, 'opt')}
    base = [a for a in c.args if a not in ('-j1',)]
    nruns = 4 if ctx.quick() else 6
    combos = set()
    nontriv = set()
    for k in range(nruns):
        E = rng.choice(EXIT_VALUES) if k else rng.choice([1, 7, 255])
        ex = rng.choice(['-j1', '-j1', 'thread', 'process'])
        fmt = rng.choice(['xml', 'text', 'text', 'sarif'])
        if (E, ex, fmt) in combos:
            continue
        combos.add((E, ex, fmt))
        args = list(base) + FORMAT_ARGS[fmt]
        if E is not None:
            args.append('--error-exitcode=%d' % E)
        args += ['-j1'] if ex == '-j1' else ['-j%d' % rng.choice([2, 3]), '--executor=' + ex]
        if rng.random() < 0.3:
            bd = os.path.join(d, 'bd%d' % k)
            os.makedirs(bd)
            args.append('--cppcheck-build-dir=' + bd)
        res = runner.cppcheck(args + c.sources, cwd=c.src)
        ctx.ev()
        if res.timed_out:
            ctx.inconclusive('watchdog fired on case %d run %d' % (idx, k))
            continue
        if b'cppcheck: error:' in res.out:
            ctx.count('rejected-command-lines', res.otext().split('cppcheck: error:', 1)[1].strip()[:50])
            break
        r = judge(ctx, 'run%d' % k, res, fmt, E, c.supprs, files, c.sig)
        ctx.count('runs', '%s/%s' % (ex, fmt))
        if r and E not in (None, 0):
            nontriv.add('R' if r[1] else ('neutral' if r[0] else 'clean'))
            if r[0] and not r[1]:
                ctx.count('verdicts', 'all-reported-findings-exit-code-neutral')
    if nontriv:
        ctx.trivial_or(c.sig + ''.join(sorted(nontriv)))
    ctx.sample({'options': [a.replace(d, '.') for a in base], 'sources': len(c.sources),
                'runs': sorted('%s/%s/%s' % x for x in combos)})
    shutil.rmtree(d, ignore_errors=True)


def _clean_and_neutral(ctx):
    """hand-built corners: nothing reported; only suppressed findings; only exit-code-neutral findings"""
    d = ctx.tmpdir('corners')
    cases.write(os.path.join(d, 'ok.c'), 'int ok(int a)\n{\n    return a + 1;\n}\n')
    cases.write(os.path.join(d, 'bad.c'), 'int bad(int a)\n{\n    return a / 0;\n}\n')
    cases.write(os.path.join(d, 'ex.txt'), 'zerodiv:bad.c\n')
    table = [
        ('clean', ['ok.c'], []),
        ('suppressed', ['--suppress=zerodiv', 'bad.c'], []),
        ('inline-neutral', ['--exitcode-suppressions=ex.txt', 'bad.c'], sm.parse_list_text('zerodiv:bad.c\n', 'list', True)),
        ('neutral-other-file', ['--exitcode-suppress=zerodiv:ok.c', 'bad.c', 'ok.c'],
         [sm.parse_spec('zerodiv:ok.c', 'cmd', True)]),
        ('neutral-wrong-line', ['--exitcode-suppress=zerodiv:bad.c:2', 'bad.c'], [sm.parse_spec('zerodiv:bad.c:2', 'cmd', True)]),
        ('neutral-right-line', ['--exitcode-suppress=zerodiv:bad.c:3', 'bad.c'], [sm.parse_spec('zerodiv:bad.c:3', 'cmd', True)]),
    ]
    for name, args, supprs in table:
        for E in EXIT_VALUES:
            for ex in (['-j1'], ['-j2', '--executor=thread'], ['-j2', '--executor=process']):
                if ex != ['-j1'] and len([a for a in args if a.endswith('.c') and not a.startswith('-')]) < 2:
                    continue
                a = ['-q'] + FORMAT_ARGS['text'] + args + ex + (['--error-exitcode=%d' % E] if E is not None else [])
                res = runner.cppcheck(a, cwd=d)
                ctx.ev()
                judge(ctx, 'corner-%s-%s-%s' % (name, E, ex[-1]), res, 'text', E, supprs, {'project': '@' + d}, 'corner-' + name)
                ctx.count('corners', name)
    # invalid command lines exit 1 whatever --error-exitcode says
    for inv in INVALID:
        for E in (None, 7):
            a = inv + (['--error-exitcode=%d' % E] if E is not None else [])
            if '--project=nosuch.json' not in inv:
                a = a + ['ok.c']
            res = runner.cppcheck(a, cwd=d)
            ctx.ev()
            ctx.count('invalid-command-lines', 'rc=%s' % res.rc)
            if res.rc != 1:
                ctx.violation('rule:invalid-command-line-exit:%s' % ' '.join(inv),
                              'invalid command line %r exits %s (stdout: %s)' % (a, res.rc, res.otext()[:200]),
                              files={'project': '@' + d}, cmd='cd project && ' + res.cmdline())
    for a in (['-q'], ['nosuch.c'], ['-q', '--error-exitcode=7'], ['--error-exitcode=7', 'nosuchdir/']):
        res = runner.cppcheck(a, cwd=d)
        ctx.ev()
        ctx.count('invalid-command-lines', 'no-input rc=%s' % res.rc)
        if res.rc != 1:
            ctx.violation('rule:invalid-command-line-exit:%s' % ' '.join(a), 'command line without input %r exits %s'
                          % (a, res.rc), files={'project': '@' + d}, cmd='cd project && ' + res.cmdline())
    shutil.rmtree(d, ignore_errors=True)


SINGLE_CLASS = [
    # (name, {file: text}, analysed files, options) — each input makes cppcheck report findings of ONE class only, so that
    # no other finding can mask a lost contribution to the exit status
    ('staticFunction', {'linkage.c': 'int helper(int x)\n{\n    return x + 1;\n}\nint main(void)\n{\n    return helper(1);\n}\n'},
     ['linkage.c'], ['--enable=style,unusedFunction']),
    ('unusedFunction', {'u.c': 'int never_called(int x)\n{\n    return x + 1;\n}\nint main(void)\n{\n    return 0;\n}\n'},
     ['u.c'], ['--enable=unusedFunction']),
    ('ctunullpointer', {'c.h': 'void deref(int *p);\n', 'a.c': '#include "c.h"\nvoid deref(int *p)\n{\n    *p = 1;\n}\n',
                        'b.c': '#include "c.h"\nint main(void)\n{\n    int *q = 0;\n    deref(q);\n    return 0;\n}\n'},
     ['a.c', 'b.c'], []),
    ('odr', {'o1.cpp': 'struct Odr {\n    int a;\n    int get() const { return a; }\n};\nint main() { Odr o; o.a = 1; return o.get() - 1; }\n',
             'o2.cpp': 'struct Odr {\n    long a;\n    long b;\n    long get() const { return a + b; }\n};\nlong use() { Odr o; o.a = 1; o.b = 2; return o.get(); }\n'},
     ['o1.cpp', 'o2.cpp'], []),
    ('unmatchedSuppression', {'ok.c': 'int ok(int a)\n{\n    return a + 1;\n}\n'}, ['ok.c'],
     ['--enable=information', '--suppress=zerodiv']),
    ('unmatchedInline', {'ok.c': 'int ok(int a)\n{\n    // cppcheck-suppress zerodiv\n    return a + 1;\n}\n'}, ['ok.c'],
     ['--enable=information', '--inline-suppr']),
    ('missingInclude', {'m.c': '#include "nothere.h"\nint ok(int a)\n{\n    return a + 1;\n}\n'}, ['m.c'], ['--enable=missingInclude']),
    ('missingIncludeSystem', {'m.c': '#include <nothere_sys.h>\nint ok(int a)\n{\n    return a + 1;\n}\n'}, ['m.c'], ['--enable=missingInclude']),
    ('style', {'s.c': 'int sv(int a)\n{\n    int unusedvar;\n    return a + 1;\n}\n'}, ['s.c'], ['--enable=style']),
    ('warning', {'w.c': 'void wv(int *p)\n{\n    *p = 1;\n    if (p)\n        *p = 0;\n}\n'}, ['w.c'], ['--enable=warning']),
    ('portability', {'p.c': 'int pv(int *p)\n{\n    int x = p;\n    return x;\n}\n'}, ['p.c'], ['--enable=portability']),
    ('performance', {'q.cpp': '#include <string>\nint pf(std::string s)\n{\n    return (int)s.size();\n}\n'}, ['q.cpp'],
     ['--enable=performance', '--library=std']),
    ('syntaxError', {'x.c': 'int f( {\n'}, ['x.c'], []),
    ('errorDirective', {'e.c': '#error stop here\nint ok(int a)\n{\n    return a + 1;\n}\n'}, ['e.c'], []),
    ('header-only-error', {'h.h': 'static inline int hz(int x)\n{\n    int z = 0;\n    return x / z;\n}\n',
                           'i.c': '#include "h.h"\nint ok(int a)\n{\n    return a + 1;\n}\n'}, ['i.c'], []),
    ('second-config-only', {'k.c': 'int ok(int a)\n{\n#ifdef RARE\n    return a / 0;\n#else\n    return a + 1;\n#endif\n}\n'}, ['k.c'], []),
    ('inconclusive-only', {'n.cpp': 'class M {\npublic:\n    M() : x(0) {}\n    int calc(int a) { return a * 2; }\n    int x;\n};\n'}, ['n.cpp'],
     ['--enable=style', '--inconclusive']),
]


def _single_class(ctx):
    """every class of finding, alone in its run, must drive the exit status: x E x executor x build dir x format"""
    for name, files, srcs, opts in SINGLE_CLASS:
        d = ctx.tmpdir('single-' + name)
        for rel, text in files.items():
            cases.write(os.path.join(d, rel), text)
        cases.write(os.path.join(d, 'zz_ok.c'), 'int zz_ok(int a)\n{\n    return a + 2;\n}\n')
        n = 0
        for E in (7, 255, None):
            for ex in (['-j1'], ['-j2', '--executor=thread'], ['-j2', '--executor=process']):
                for bd in (False, True):
                    for fmt in (('text', 'xml') if E == 7 else ('text',)):
                        a = ['-q'] + FORMAT_ARGS[fmt] + opts + ex + (['--error-exitcode=%d' % E] if E is not None else [])
                        if bd:
                            b = os.path.join(d, 'bd_%d' % n)
                            os.makedirs(b)
                            a.append('--cppcheck-build-dir=' + b)
                        n += 1
                        extra = ['zz_ok.c'] if ex != ['-j1'] and not any(x.endswith('.cpp') for x in srcs) else []
                        res = runner.cppcheck(a + srcs + extra, cwd=d)
                        ctx.ev()
                        r = judge(ctx, 'single-%s-%s-%s-%s-%s' % (name, E, ex[-1], bd, fmt), res, fmt, E, [],
                                  {'project': '@' + d}, 'single-' + name)
                        if r and r[0]:
                            ctx.count('single_class_runs_with_findings', name)
        shutil.rmtree(d, ignore_errors=True)


def _replay_known(ctx):
    """known/C25/unmatched-nofail: the only reported finding is an unmatchedSuppression that an
    exit-code suppression matches, yet the exit status is --error-exitcode"""
    src = os.path.join(KNOWN_DIR, 'unmatched-nofail')
    if not os.path.isdir(src):
        ctx.inconclusive('witness directory %s missing' % src)
        return
    args = ['-q', '--error-exitcode=7', '--enable=information', '--suppress=foo', '--exitcode-suppressions=ex.txt',
            '--template=' + findings.TEMPLATE, 'ok.c']
    res = runner.cppcheck(args, cwd=src)
    ctx.ev()
    supprs = sm.parse_list_text(open(os.path.join(src, 'ex.txt')).read(), 'list', True) + [sm.parse_spec('foo')]
    rep = observe(res, 'text') or []
    counting = [f for f in rep if sm.exitcode_neutral(supprs, f) is False]
    if rep and not counting and res.rc != 0:
        ctx.violation('rule:exitcode-suppression-ignored-for-unmatchedSuppression',
                      'exit status %s although the only reported finding (%s) is matched by the exit-code suppression '
                      '"unmatchedSuppression"' % (res.rc, ', '.join(f.id for f in rep)), files={'project': '@' + src},
                      cmd='cd project && ' + res.cmdline())
    elif not rep:
        ctx.inconclusive('witness unmatched-nofail reported nothing')


def run(ctx):
    ctx.rule = ('run = one cppcheck execution of a generated project under generated suppression / exit-code suppression '
                'sets, --error-exitcode value, executor and output format, judged on its own report; non-trivial case = '
                'a case with --error-exitcode>0 whose runs were judged (distinct by outcome class: counting findings / '
                'only exit-code-neutral findings / nothing reported)')
    _replay_known(ctx)
    _clean_and_neutral(ctx)
    _single_class(ctx)
    n = ctx.n(80, 2500)
    runner.pmap(lambda i: _case(ctx, i), range(n), workers=8)
