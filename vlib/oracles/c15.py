"""C15 — Parallel execution reports exactly what a single job reports.

Oracle: for a generated (project, options, suppressions) case the canonical finding multiset
(incl. unmatchedSuppression reports) and the exit status of `-j N` under the thread and the
process executor, with seeded scheduling perturbation (hook H2), equal those of `-j 1`.
Whole-program ids are compared only when a build dir is used.
"""
import fnmatch as _fn
import os
import shutil

from .. import cases, findings
from ..run import pmap
from ..core import sha1
from ..gen import projgen, supprgen

PID = 'C15'
FLAVOURS = ['mon']
META = {
    'technique': 'differential run monitor: -j1 vs -jN (thread/process) under seeded schedule perturbation (hook H2)',
    'level_text': 'Sampled exploration: generated multi-file projects with shared headers, inline/command-line '
                  'suppressions and duplicate findings are analysed with -j1 and with -jN under both executors '
                  'and several seeded delay schedules; canonical findings, unmatchedSuppression reports and exit '
                  'status must be equal. Evidence counts distinct worker hand-out orders actually observed.',
    'level_note': 'Trusts the -j1 run as the reference; schedules are perturbed (H2 delays, oversubscription), not '
                  'enumerated; whole-program ids compared only with a build dir, as the statement says.',
    'design_ref': 'DESIGN.md §3 C15',
}


def _case(ctx, idx):
    rng = ctx.subrng('case', idx)
    proj = projgen.gen(rng, nfiles=(2, 10 if ctx.quick() else 24), headers=True, ctu=True, modehdr=rng.random() < 0.6)
    d = ctx.tmpdir('c%d' % idx)
    src = os.path.join(d, 'src')
    proj.write(src)
    enable = rng.choice(['all', 'all', 'style,information', 'warning,style,performance,portability,information'])
    base = ['-q', '--enable=' + enable, '--error-exitcode=3']
    if rng.random() < 0.5:
        base.append('--inconclusive')
    # ground truth without suppressions to seed suppressions that match something
    a0 = cases.analyse(src, base + proj.sources)
    proj2, inserted = supprgen.add_inline(rng, proj, a0.findings, frac=0.35, unmatched=rng.randint(0, 3))
    shutil.rmtree(src)
    proj2.write(src)
    # exclusion no-double-cover [finding double-cover]: a finding is never covered by an inline suppression *and* a
    # command-line suppression (workers hide it locally, the parent then reports the global one as unmatched)
    import re as _re
    inline_ids = set()
    for _f, _l, txt in inserted:
        inline_ids.update(_re.findall(r'[A-Za-z_][A-Za-z_0-9]*', txt.split('cppcheck-suppress', 1)[1]))
    cand = [f for f in a0.findings if f.id not in inline_ids]
    cmd = [o for o in supprgen.cmdline_set(rng, cand, proj.sources)
           if not any(_fn.fnmatchcase(i, o.split('=', 1)[1].split(':')[0]) for i in inline_ids)]
    opts = base + ['--inline-suppr'] + cmd
    use_bd = rng.random() < 0.5
    njobs = rng.choice([2, 3, 4, 8, 16])

    def runit(tag, extra, env=None):
        o = list(opts)
        if use_bd:
            bd = os.path.join(d, 'bd_' + tag)
            os.makedirs(bd)
            o.append('--cppcheck-build-dir=' + bd)
        return cases.analyse(src, o + extra + proj2.sources, env=env)

    ref = runit('ref', ['-j1'])
    if not ref.xml_ok or cases.crashed(ref.res) or ref.res.timed_out:
        ctx.count('skipped', 'reference-run-unusable')
        return
    ctx.ev()

    def canon(a):
        if use_bd:
            return a.findings
        # without a build dir -jN performs no whole-program analysis: whole-program findings are
        # outside the equality, and so is the matched-state of a suppression *of* such an id
        return [f for f in a.findings if not cases.is_whole_program(f.id)
                and not (f.id == 'unmatchedSuppression'
                         and cases.glob_hits_whole_program(f.msg.rsplit(': ', 1)[-1]))]

    ref_fs = canon(ref)
    for f in ref_fs:
        ctx.count('finding_ids', f.id)
    orders = set()
    nsched = 2 if ctx.quick() else 4
    for ex in ('thread', 'process'):
        for s in range(nsched):
            tag = '%s%d' % (ex, s)
            log = os.path.join(d, 'sched_%s.log' % tag)
            env = {'VERIF_SCHED_SEED': str(ctx.seed * 1000 + idx * 10 + s), 'VERIF_SCHED_LOG': log,
                   'VERIF_SCHED_MAX_US': str(rng.choice([200, 2000, 8000]))}
            a = runit(tag, ['-j%d' % njobs, '--executor=' + ex], env=env)
            ctx.ev()
            ctx.count('runs', ex)
            if os.path.exists(log):
                order = tuple(l.split(' ', 3)[3].strip() for l in open(log, errors='replace')
                              if ' thread.handout ' in l or ' proc.child.start ' in l)
                done = tuple(l.split(' ', 3)[3].strip() for l in open(log, errors='replace')
                             if ' thread.done ' in l or ' proc.parent.eof ' in l)
                orders.add((ex, order, done))
            key = None
            what = ''
            if a.res.timed_out:
                ctx.inconclusive('watchdog fired on case %d %s' % (idx, tag))
                continue
            if not a.xml_ok or cases.crashed(a.res):
                key = 'case:%s:j1-vs-%s:crash-or-bad-xml' % (proj2.digest(), ex)
                what = 'run %s crashed or produced malformed XML (rc=%s)\n%s' % (tag, a.rc, a.res.etext()[-1500:])
            else:
                oa, ob = findings.diff(ref_fs, canon(a))
                if oa or ob:
                    first = (oa or ob)[0][0]
                    key = 'case:%s:j1-vs-%s:%s' % (proj2.digest(), ex, first)
                    what = 'findings differ between -j1 and -j%d --executor=%s (build dir: %s)\n%s' % (
                        njobs, ex, use_bd, cases.fmt_diff(oa, ob, '-j1', '-j%d/%s' % (njobs, ex)))
                elif a.rc != ref.rc and (use_bd or ref_fs):
                    key = 'case:%s:j1-vs-%s:exitcode' % (proj2.digest(), ex)
                    what = 'exit status differs: -j1 -> %s, -j%d %s -> %s' % (ref.rc, njobs, ex, a.rc)
            if key:
                ctx.violation(key, what, files={'project': '@' + src},
                              cmd='cd project && %s   # reference: same with -j1\nenv: %r' % (
                                  a.res.cmdline(), env))
    ctx.count('hist', 'distinct_schedules_observed', len(orders))
    if len(ref_fs) >= 2 and len(orders) >= 2:
        ctx.trivial_or(proj2.digest() + repr(opts))
    ctx.sample({'files': len(proj2.sources), 'jobs': njobs, 'build_dir': use_bd, 'options': opts,
                'inline_suppressions': len(inserted), 'reference_findings': len(ref_fs),
                'distinct_schedules': len(orders)})
    shutil.rmtree(d, ignore_errors=True)


def replay_known(ctx):
    """known/C24/double-cover (same root cause as the C24 finding): -jN reports a matched global suppression as unmatched"""
    from ..build import VERIF
    src = os.path.join(VERIF, 'known', 'C24', 'double-cover')
    if not os.path.isdir(src):
        return
    args = ['-q', '--enable=information', '--inline-suppr', '--suppress=zerodiv', 'a.c', 'b.c']
    ref = cases.analyse(src, args + ['-j1'])
    for ex in ('thread', 'process'):
        a = cases.analyse(src, args + ['-j2', '--executor=' + ex])
        ctx.ev()
        oa, ob = findings.diff(ref.findings, a.findings)
        if oa or ob:
            ctx.count('known_witnesses', 'replayed-and-failing')
            ctx.violation('case:witness-double-cover:j1-vs-%s:unmatchedSuppression' % ex,
                          '-j2 --executor=%s reports "Unmatched suppression: zerodiv" for a global suppression that -j1 '
                          'counts as matched (the finding is also hidden by an inline suppression in the worker)' % ex,
                          files={'project': '@' + src}, cmd='cd project && ' + a.res.cmdline())
        else:
            ctx.count('known_witnesses', 'no-longer-failing:double-cover-' + ex)


def run(ctx):
    replay_known(ctx)
    ctx.cov['generator_exclusions'] = {'no-double-cover': 'a finding is never covered by both an inline and a command-line '
                                                          'suppression [finding double-cover, shared with C24]'}
    ctx.rule = ('case = generated project (2-24 files, shared headers, seeded findings, inline + command-line '
                'suppressions, optional build dir) analysed with -j1 and with -jN x {thread,process} x seeded '
                'H2 schedules; non-trivial = reference has >=2 findings and >=2 distinct worker hand-out/'
                'completion orders were observed in the H2 event log')
    n = ctx.n(16, 400)
    cases_idx = list(range(n))
    pmap(lambda i: _case(ctx, i), cases_idx, workers=4)
