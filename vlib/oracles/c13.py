"""C13 — Any input is handled without crash, memory error, undefined behaviour or hang.

Monitor: the gcc ASan+UBSan build of the real CLI (`asan` flavour, reports fatal), one process per
case, over (a) the reproducers the repository ships (unmutated, under the options of its own
test/cli/fuzz_test.py) and (b) grammar-aware token-level and byte-level mutants of those, of
test/cfg slices, samples and progen programs, each under a random documented option set.

Refuted by: sanitizer report / fatal signal / abort / uncaught exception (key `crash:<top two cppcheck
frames>`, so one root cause is one key whatever input reaches it), non-termination (key
`hang:<sha1 input>:<options>`), an exit status that is neither 0 nor --error-exitcode, or stderr
output that is not a finding line (key `stderr-noise:...`).

Hang rule (robust against machine load: budgets are *CPU seconds of the child*, enforced with
RLIMIT_CPU, wall clock is only a backstop): 60 CPU-s per input (<= 8 KiB) on the ASan build; an
overrun is re-run alone with 180 CPU-s; if that is exhausted too the optimised `mon` build gets
30 CPU-s: exhausted there as well => hang violation; otherwise the case is *inconclusive*
(slow under the sanitizer only). A wall-clock backstop without CPU exhaustion is inconclusive.
"""
import os
import re
import shutil

from .. import build, sanreport
from ..core import sha1
from ..gen import mutate
from ..run import pmap, run as run_cmd, base_env

PID = 'C13'
FLAVOURS = ['asan', 'mon']
META = {
    'technique': 'sanitizer gate: ASan+UBSan CLI, one process per mutated input x random documented option set; '
                 'CPU-time hang rule with alone re-run',
    'level_text': 'Sampled exploration: shipped fuzz reproducers (unmutated, under the options of the repository\'s own '
                  'fuzz test) and token-/byte-level mutants of the shipped reproducers, test/cfg slices, samples and '
                  'generated programs run through the sanitizer build of the real command line, one process per '
                  'case, under random documented option sets. Evidence counts cases by corpus, mutation kind, '
                  'option, and how far the analysis got (front-end rejection vs. all checkers).',
    'level_note': 'A finite sample of the byte-string x option space; no coverage feedback in the CLI tier. Crashes '
                  'are keyed by the top two cppcheck frames of the first report.',
    'design_ref': 'DESIGN.md §3 C13',
}

CPU1, WALL1 = 60, 300
CPU2, WALL2 = 180, 900
CPU_MON, WALL_MON = 30, 240
SIGXCPU = 24

KNOWN_DIR = os.path.join(build.VERIF, 'known', 'C13')

TEMPLATE = '{file}:{line}:{column}:{severity}:{id}:{message}'
_LINE = re.compile(r'^.*:-?\d+:-?\d+:(error|warning|style|performance|portability|information|debug|none):'
                   r'([A-Za-z0-9_.-]+):')

FRONTEND_IDS = {'syntaxError', 'unknownMacro', 'internalAstError', 'internalError', 'preprocessorErrorDirective',
                'unhandledChar', 'cppcheckError', 'noValidConfiguration', 'invalidCode'}

SMALL_LIBS = ['posix', 'gnu', 'bsd', 'zlib', 'sqlite3', 'openmp', 'lua', 'pcre', 'cppunit', 'googletest', 'avr',
              'libcurl', 'openssl', 'tinyxml2', 'selinux', 'nspr', 'embedded_sql', 'microsoft_sal']
BIG_LIBS = ['qt', 'windows', 'boost', 'gtk', 'wxwidgets', 'mfc', 'kde', 'opencv2', 'sdl', 'python', 'ruby']
PLATFORMS = ['unix32', 'unix64', 'win32A', 'win32W', 'win64', 'avr8', 'native', 'unspecified', 'elbrus-e1cp',
             'pic8', 'pic8-enhanced', 'pic16', 'mips32', 'cray_sv1', 'msp430_eabi_large_datamodel',
             'arm32-wchar_t2', 'arm64-wchar_t4', 'riscv32', 'aix_ppc64']
STD_C = ['c89', 'c99', 'c11', 'c17', 'c23', 'c2y']
STD_CPP = ['c++03', 'c++11', 'c++14', 'c++17', 'c++20', 'c++23', 'c++26']
DEFINES = ['-DA', '-DA=1', '-DNDEBUG', '-DX=(', '-Dx=y', '-D__cplusplus=201103L', '-DT=int', '-D_WIN32', '-DUNICODE',
           '-DN=0x7fffffff', '-D__GNUC__=9', '-DFOO(x)=x', '-UA', '-DEMPTY=']


def option_set(rng, lang):
    o = []
    r = rng.random()
    if r < 0.55:
        o.append('--enable=all')
    elif r < 0.75:
        o.append('--enable=' + ','.join(rng.sample(['warning', 'style', 'performance', 'portability', 'information',
                                                    'unusedFunction', 'missingInclude'], rng.randint(1, 4))))
    if rng.random() < 0.5:
        o.append('--inconclusive')
    r = rng.random()
    if r < 0.25:
        o.append('--check-level=exhaustive')
    elif r < 0.4:
        o.append('--check-level=reduced')
    elif r < 0.45:
        o.append('--check-level=normal')
    if rng.random() < 0.5:
        o.append('--language=' + (lang if rng.random() < 0.8 else ('c' if lang == 'c++' else 'c++')))
    if rng.random() < 0.4:
        o.append('--std=' + rng.choice(STD_C if rng.random() < 0.4 else STD_CPP))
    if rng.random() < 0.4:
        o.append('--platform=' + rng.choice(PLATFORMS))
    for _ in range(rng.choice([0, 0, 0, 1, 1, 2, 3])):
        o.append(rng.choice(DEFINES))
    for _ in range(rng.choice([0, 0, 0, 1, 1, 2])):
        o.append('--library=' + (rng.choice(SMALL_LIBS) if rng.random() < 0.85 else rng.choice(BIG_LIBS)))
    if rng.random() < 0.3:
        o.append('--inline-suppr')
    if rng.random() < 0.3:
        o.append('--dump')
    if rng.random() < 0.2:
        o.append('--max-ctu-depth=%d' % rng.choice([0, 1, 2, 4, 10]))
    if rng.random() < 0.2:
        o.append('--force')
    if rng.random() < 0.1:
        o.append('--max-configs=%d' % rng.choice([1, 2, 20]))
    if rng.random() < 0.1:
        o.append('--verbose')
    if rng.random() < 0.15:
        o.append('--error-exitcode=%d' % rng.choice([1, 3, 77]))
    return o


class Case:
    __slots__ = ('idx', 'kind', 'name', 'data', 'lang', 'opts', 'fname', 'mut', 'origin')


def _limited(cpu, argv):
    return ['prlimit', '--cpu=%d' % cpu] + argv


def execute(ctx, case, flavour='asan', cpu=CPU1, wall=WALL1, tag=''):
    d = ctx.tmpdir('k%s%d' % (tag, case.idx))
    with open(os.path.join(d, case.fname), 'wb') as f:
        f.write(case.data)
    argv = [build.binary(flavour), '-q', '--template=' + TEMPLATE] + case.opts + [case.fname]
    res = run_cmd(_limited(cpu, argv), cwd=d, env=base_env(), timeout=wall)
    shutil.rmtree(d, ignore_errors=True)
    return res


def cmd_text(case, res):
    return 'printf/copy the input to %s, then:\n%s' % (case.fname, ' '.join(
        "'%s'" % a if re.search(r'[^\w=./,+:-]', a) else a for a in res.argv[2:]))


def cpu_exhausted(res):
    return res.rc == -SIGXCPU or res.rc == 128 + SIGXCPU


def judge(ctx, case, res, suspects):
    """Evaluate one finished first run."""
    digest = sha1(case.data)
    ctx.ev()
    ctx.count('cases_by_origin', case.origin)
    ctx.count('cases_by_kind', case.kind)
    for m in case.mut:
        ctx.count('mutations', m)
    for o in case.opts:
        ctx.count('options', o.split('=')[0] if not o.startswith(('-D', '-U')) else o[:2])
    if res.timed_out or cpu_exhausted(res):
        ctx.count('outcome', 'overrun-first-run')
        suspects.append(case)
        return
    crash = sanreport.classify(res)
    if crash is not None:
        ctx.count('outcome', 'crash')
        key = crash.key(digest)
        ctx.violation(key, '%s in %s (input %s, sha1 %s, %d bytes, mutations %s)\nrc=%s\n%s' % (
            crash.kind + (' [' + crash.detail + ']' if crash.detail else ''), ' <- '.join(crash.frames[:4]) or '?',
            case.name, digest, len(case.data), case.mut, res.rc, crash.excerpt[:2500]),
            files={case.fname: case.data}, cmd=cmd_text(case, res))
        return
    # normal end: exit status and stderr discipline
    allowed = {0}
    for o in case.opts:
        if o.startswith('--error-exitcode='):
            allowed.add(int(o.split('=')[1]))
    err = res.err.decode('utf-8', 'replace')
    ids = []
    noise = []
    for line in err.splitlines():
        m = _LINE.match(line)
        if m:
            ids.append(m.group(2))
        elif line.strip():
            noise.append(line)
    if res.rc not in allowed:
        ctx.count('outcome', 'bad-exit-status')
        ctx.violation('exit:%s:%s' % (res.rc, digest), 'exit status %s (allowed %s) for input %s\nstdout: %s\nstderr: %s' % (
            res.rc, sorted(allowed), case.name, res.otext()[-600:], err[-1200:]),
            files={case.fname: case.data}, cmd=cmd_text(case, res))
        return
    if noise:
        # continuation lines of a multi-line message are legal only directly after a finding line;
        # anything that looks like a diagnostic of the runtime is not
        bad = [l for l in noise if re.search(r'terminate called|what\(\):|Traceback \(most|Assertion .* failed|core dumped|'
                                             r'Sanitizer|runtime error|Segmentation|Aborted', l)]
        if bad:
            ctx.count('outcome', 'stderr-noise')
            ctx.violation('stderr-noise:%s:%s' % (re.sub(r'\W+', '-', bad[0])[:40], digest),
                          'stderr carries non-finding output: %r' % bad[:3],
                          files={case.fname: case.data}, cmd=cmd_text(case, res))
            return
        ctx.count('stderr_other_lines', 'cases')
    for i in set(ids):
        ctx.count('finding_ids', i)
    front = [i for i in ids if i in FRONTEND_IDS]
    reached = 'rejected-by-front-end' if front else 'all-checkers-ran'
    ctx.count('outcome', reached)
    ctx.count('cpu_wall', 'wall_s_total', round(res.wall, 1))
    ctx.trivial_or(digest + ' '.join(case.opts))
    if case.kind == 'mutant' and case.idx % 37 == 0:
        ctx.sample({'seed': case.name, 'mutations': case.mut, 'bytes': len(case.data), 'options': case.opts,
                    'finding_ids': sorted(set(ids))[:8], 'outcome': reached})


def recheck_suspect(ctx, case):
    """Hang rule, second and third stage. Runs alone (called sequentially after the pool)."""
    digest = sha1(case.data)
    r2 = execute(ctx, case, 'asan', CPU2, WALL2, tag='r')
    if not r2.timed_out and not cpu_exhausted(r2):
        ctx.count('outcome', 'slow-but-terminates')
        ctx.count('slow_inputs', '%s %s' % (case.name, ' '.join(case.opts)))
        crash = sanreport.classify(r2)
        if crash is not None:
            key = crash.key(digest)
            ctx.violation(key, '%s in %s (input %s sha1 %s; second, alone run)\n%s' % (
                crash.kind, ' <- '.join(crash.frames[:4]) or '?', case.name, digest, crash.excerpt[:2500]),
                files={case.fname: case.data}, cmd=cmd_text(case, r2))
        else:
            ctx.trivial_or(digest + ' '.join(case.opts))
        return
    if r2.timed_out and not cpu_exhausted(r2):
        ctx.count('outcome', 'wall-backstop-without-cpu-exhaustion')
        ctx.inconclusive('input %s (%s): wall-clock backstop %ds fired before %d CPU-s were used (machine overloaded)'
                         % (case.name, digest, WALL2, CPU2))
        return
    r3 = execute(ctx, case, 'mon', CPU_MON, WALL_MON, tag='m')
    if cpu_exhausted(r3):
        ctx.count('outcome', 'hang')
        ctx.violation('hang:%s:%s' % (digest, ' '.join(case.opts)),
                      'no termination: %d CPU-s exhausted on the ASan build (run alone) and %d CPU-s on the optimised '
                      'build; input %s, %d bytes' % (CPU2, CPU_MON, case.name, len(case.data)),
                      files={case.fname: case.data}, cmd=cmd_text(case, r3))
    else:
        ctx.count('outcome', 'slow-under-sanitizer-only')
        ctx.inconclusive('input %s (%s) options %s: %d CPU-s exhausted on the ASan build but the optimised build '
                         'ends (%.1fs wall)' % (case.name, digest, case.opts, CPU2, r3.wall))


def make_cases(ctx):
    cases = []
    shipped = mutate.shipped_fuzz()
    samples = mutate.sample_files()
    cfgfiles = mutate.cfg_test_files()
    rng0 = ctx.subrng('plan')
    n_shipped = len(shipped) if not ctx.quick() else ctx.n(24, len(shipped))
    pick = shipped if n_shipped >= len(shipped) else rng0.sample(shipped, n_shipped)
    # known-finding witnesses shipped by the repository are always replayed (see known/C13.txt)
    for s in shipped:
        if s not in pick and os.path.exists(os.path.join(KNOWN_DIR, s.name.replace('/', '__'))):
            pick.append(s)
    idx = 0
    for s in pick:
        c = Case()
        c.idx, c.kind, c.name, c.data, c.lang, c.origin = idx, 'shipped-unmutated', s.name, s.data, s.lang, s.origin
        c.opts = ['--language=' + s.lang, '--enable=all', '--inconclusive']
        c.fname = 'input'
        c.mut = []
        cases.append(c)
        idx += 1
    # witnesses of listed findings that are not shipped files
    if os.path.isdir(KNOWN_DIR):
        for f in sorted(os.listdir(KNOWN_DIR)):
            p = os.path.join(KNOWN_DIR, f)
            if f.endswith(('.opts', '.txt')) or not os.path.isfile(p) or '__' in f:
                continue
            c = Case()
            c.idx, c.kind, c.name, c.origin = idx, 'known-witness', 'known/C13/' + f, 'known'
            c.data = open(p, 'rb').read()
            c.lang = 'c' if f.endswith('.c') else 'c++'
            c.opts = open(p + '.opts').read().split() if os.path.exists(p + '.opts') else ['--enable=all', '--inconclusive']
            c.fname = 't.c' if c.lang == 'c' else 't.cpp'
            c.mut = []
            cases.append(c)
            idx += 1
    nmut = ctx.n(150, 20000)
    for k in range(nmut):
        rng = ctx.subrng('mutant', k)
        r = rng.random()
        if r < 0.35:
            s = rng.choice(shipped)
        elif r < 0.6:
            s = mutate.cfg_slice(rng, rng.choice(cfgfiles))
        elif r < 0.75:
            s = rng.choice(samples)
        else:
            s = mutate.progen_seed(rng, size=rng.choice([0.3, 0.5, 0.8]))
        data = s.data[:mutate.MAX_INPUT]
        r = rng.random()
        if r < (0.15 if s.origin.startswith('fuzz') else 0.45):
            text, kinds = mutate.mutate_gentle(rng, data.decode('latin-1'))
            data = text.encode('latin-1', 'replace')[:mutate.MAX_INPUT]
            kinds = ['gentle:' + x for x in kinds]
        elif r < 0.75:
            other = rng.choice(shipped).data.decode('latin-1')
            text, kinds = mutate.mutate_tokens(rng, data.decode('latin-1'), other)
            data = text.encode('latin-1', 'replace')[:mutate.MAX_INPUT]
            kinds = ['tok:' + x for x in kinds]
        else:
            data, kinds = mutate.mutate_bytes(rng, data)
            kinds = ['byte:' + x for x in kinds]
        c = Case()
        c.idx, c.kind, c.name, c.data, c.lang, c.origin = idx, 'mutant', s.name, data, s.lang, s.origin
        c.opts = option_set(rng, s.lang)
        c.fname = ('t.c' if s.lang == 'c' else 't.cpp') if rng.random() < 0.85 else rng.choice(['t.h', 't.cc', 't.C', 't.cxx'])
        c.mut = kinds
        cases.append(c)
        idx += 1
    return cases


def run(ctx):
    ctx.rule = ('case = one real ASan+UBSan CLI process on one input file (<= 8 KiB) under one option set; '
                'non-trivial = the process ran to its normal end (no overrun), so that exit status, stderr and the '
                'absence of a sanitizer report were all observed; distinct by (input sha1, options). '
                'Table "outcome" separates inputs the front end rejected from inputs all checkers ran on.')
    ctx.assumptions.append('hang budgets are CPU seconds of the child process (RLIMIT_CPU), so machine load cannot '
                           'turn a slow run into a hang verdict; wall clock is only a backstop (inconclusive)')
    cases = make_cases(ctx)
    suspects = []

    def one(c):
        res = execute(ctx, c)
        judge(ctx, c, res, suspects)

    pmap(one, cases, workers=12)
    for c in suspects:
        recheck_suspect(ctx, c)
    if ctx.cov.get('outcome', {}).get('all-checkers-ran', 0) == 0:
        ctx.inconclusive('no input got past the front end: the checkers were never exercised')
