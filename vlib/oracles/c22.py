"""C22 — Whole-program results do not depend on how summaries are stored.

Oracle: for a generated multi-file program the multiset of whole-program findings (ctu*,
unusedFunction, staticFunction, ctuOneDefinitionRuleViolation) must be the same in
  (A) -j1 without build dir (summaries in memory),
  (B) -j1 with an empty build dir, (C) -j4 --executor=thread with build dir,
  (D) -j4 --executor=process with build dir, (E) B run again on its now fully populated build dir.
"""
import os
import shutil

from .. import cases, findings
from ..run import pmap
from ..core import sha1
from ..gen import ctugen, projgen, edits

PID = 'C22'
FLAVOURS = ['mon']
META = {
    'technique': 'differential run monitor: whole-program findings from in-memory summaries (-j1) vs summaries '
                 'written to / read back from a build dir (-j1, -j4 thread, -j4 process, fully cached re-run)',
    'level_text': 'Sampled exploration: generated programs with null/uninitialised/array-size arguments passed across '
                  'files directly and through call chains over 3-4 files, shared-header and local prototypes, member '
                  'functions, unused functions and functions used only from another file / through a function '
                  'pointer / macro / template, ODR conflicts; whole-program finding multisets compared across five '
                  'storage modes. Evidence counts shapes generated and whole-program ids compared.',
    'level_note': 'Mode A is the reference. Only ids that whole-program analysis can produce are compared (the other '
                  'findings belong to C15/C18). The known duplicate-function-name defect is replayed from a fixed '
                  'witness and excluded from the generator.',
    'design_ref': 'DESIGN.md §3 C22',
}

KNOWN_DIR = os.path.join(os.path.dirname(os.path.dirname(os.path.dirname(os.path.abspath(__file__)))), 'known', 'C22')

# fixed witnesses of the listed findings (copies live in /verif/known/C22/<name>/ and are preferred if present)
WITNESSES = {
    # name: (key, expected first differing id, options, files)
    'dupname': ('witness:dupname-unusedFunction-location', 'unusedFunction', ['-q', '--enable=style,unusedFunction'], {
        'a.c': 'int dup_fn(int x) {\n    return x + 1;\n}\nint main(void) {\n    return 0;\n}\n',
        'b.c': '\n\nint dup_fn(int x) {\n    return x + 2;\n}\n'}),
    'nestedcall': ('witness:nested-call-lost-with-builddir', 'ctunullpointer', ['-q'], {
        'c.h': 'int ch0(int *p);\nint ch1(int *p);\n',
        'u1.c': '#include "c.h"\nint chcall(void) {\n    int *q = 0;\n    return ch1(q);\n}\n',
        'u2.c': '#include "c.h"\nint ch1(int *p) {\n    return ch0(p);\n}\n',
        'u3.c': '#include "c.h"\nint ch0(int *p) {\n    return *p + 1;\n}\n'}),
    'staticfn': ('witness:staticFunction-missing-with-builddir', 'staticFunction',
                 ['-q', '--enable=style,unusedFunction'], {
        'a.c': ('int helper(int x) {\n    return x + 1;\n}\nint main(void) {\n    return helper(1);\n}\n'),
        'b.c': 'int other(int x);\nint other(int x) {\n    return x;\n}\nint (*g_fp)(int) = other;\n'}),
}

MODES = [
    ('B:-j1+builddir', ['-j1'], 'bdB'),
    ('C:-j4-thread+builddir', ['-j4', '--executor=thread'], 'bdC'),
    ('D:-j4-process+builddir', ['-j4', '--executor=process'], 'bdD'),
    ('E:-j1+builddir-cached', ['-j1'], 'bdB'),
]


def _wp(fs):
    return [f for f in fs if cases.is_whole_program(f.id)]


def _run_modes(ctx, d, src, opts, sources):
    """-> (reference Analysis, list of (mode name, Analysis)) or None"""
    ref = cases.analyse(src, opts + ['-j1'] + sources)
    out = []
    for name, jopt, bdname in MODES:
        bd = os.path.join(d, bdname)
        os.makedirs(bd, exist_ok=True)
        extra = ['--debug-analyzerinfo'] if name.startswith('E') else []
        out.append((name, cases.analyse(src, opts + jopt + ['--cppcheck-build-dir=' + bd] + extra + sources)))
    for a in [ref] + [x[1] for x in out]:
        if a.res.timed_out:
            ctx.inconclusive('watchdog fired: ' + a.res.cmdline()[-200:])
            return None
    return ref, out


def _compare(ctx, ref, runs, keyfn, src, what_prefix=''):
    ref_wp = _wp(ref.findings)
    nviol = 0
    for name, a in runs:
        key = None
        if not a.xml_ok or cases.crashed(a.res):
            key = keyfn('A-vs-' + name.split(':')[0], 'crash-or-bad-xml')
            what = 'mode %s crashed or produced malformed XML (rc=%s)\n%s' % (name, a.rc, a.res.etext()[-1500:])
        else:
            oa, ob = findings.diff(ref_wp, _wp(a.findings))
            if oa or ob:
                key = keyfn('A-vs-' + name.split(':')[0], (oa or ob)[0][0])
                what = '%swhole-program findings differ between mode A (-j1, no build dir) and mode %s\n%s' % (
                    what_prefix, name, cases.fmt_diff(oa, ob, 'A', name.split(':')[0]))
        if key:
            nviol += 1
            ctx.violation(key, what, files={'project': '@' + src},
                          cmd='cd project && %s   # mode %s (build dir must exist%s)\ncd project && %s   # mode A' % (
                              a.res.cmdline(), name,
                              '; for E run the same command twice' if name.startswith('E') else ', empty',
                              ref.res.cmdline()))
    return nviol


# ------------------------------------------------------------------ replay of the listed findings
def _witness(ctx, name):
    """-> True if the witness still shows a difference between the modes"""
    key, expect_id, opts, files = WITNESSES[name]
    d = ctx.tmpdir('wit-' + name)
    src = os.path.join(d, 'src')
    for rel, text in files.items():
        kp = os.path.join(KNOWN_DIR, name, rel)
        cases.write(os.path.join(src, rel), open(kp).read() if os.path.exists(kp) else text)
    sources = sorted(f for f in files if f.endswith('.c'))
    r = _run_modes(ctx, d, src, opts, sources)
    if r is None:
        return True
    ref, runs = r
    ctx.ev()
    ctx.count('witness_replays', name)
    if _wp(ref.findings):
        ctx.trivial_or('witness:' + name)
    n = _compare(ctx, ref, runs,
                 lambda pair, fid: key if fid == expect_id else 'witness:%s:%s:%s' % (name, pair, fid), src,
                 'fixed witness %s: ' % name)
    shutil.rmtree(d, ignore_errors=True)
    return n > 0


# ------------------------------------------------------------------ generated programs
def _case(ctx, idx, chains, samefile):
    rng = ctx.subrng('case', idx)
    if rng.random() < 0.8:
        proj = ctugen.gen(rng, nfiles=(2, 5 if ctx.quick() else 7), nshapes=(2, 6 if ctx.quick() else 10),
                          chains=chains, samefile=samefile)
        gen = 'ctugen'
    else:
        proj = projgen.gen(rng, nfiles=(2, 5), headers=True, ctu=True)
        edits.unique_function_names(proj)     # exclusion: witness:dupname-unusedFunction-location
        proj.shapes = ['projgen']
        gen = 'projgen'
    d = ctx.tmpdir('c%d' % idx)
    src = os.path.join(d, 'src')
    proj.write(src)
    opts = ['-q', '--enable=all']
    if rng.random() < 0.4:
        opts.append('--inconclusive')
    r = rng.random()
    if r < 0.2:
        opts.append('--max-ctu-depth=%d' % rng.choice([1, 3, 4, 10]))
    if rng.random() < 0.15:
        opts.append('--check-level=exhaustive')
    sources = list(proj.sources)
    rng.shuffle(sources)
    rr = _run_modes(ctx, d, src, opts, sources)
    if rr is None:
        return
    ref, runs = rr
    if not ref.xml_ok or cases.crashed(ref.res):
        ctx.count('skipped', 'reference-run-unusable')
        return
    ctx.ev()
    ref_wp = _wp(ref.findings)
    for f in ref_wp:
        ctx.count('whole_program_ids_in_reference', f.id)
    for s in proj.shapes:
        ctx.count('shapes', s)
    ctx.count('generator', gen)
    e = dict(runs)['E:-j1+builddir-cached']
    hits = e.res.otext().count('skipping analysis - loaded')
    ctx.count('hist', 'mode_E_cache_files_reused', hits)
    if hits != len(sources):
        ctx.count('notes', 'mode E re-analysed %d file(s)' % (len(sources) - hits))
    digest = sha1(proj.digest(), repr(opts), repr(sources))
    _compare(ctx, ref, runs, lambda pair, fid: 'case:%s:%s:%s' % (digest, pair, fid), src)
    if len(ref_wp) >= 2 and len(set(f.id for f in ref_wp)) >= 2 and hits == len(sources):
        ctx.trivial_or(digest)
    ctx.sample({'files': sources, 'options': opts, 'shapes': proj.shapes,
                'whole_program_findings_in_A': sorted(set(f.id for f in ref_wp)), 'n': len(ref_wp)})
    shutil.rmtree(d, ignore_errors=True)


def run(ctx):
    ctx.rule = ('case = generated program (2-7 files, 2-10 cross-file shapes) analysed in modes A-E; non-trivial = mode '
                'A reports >= 2 whole-program findings of >= 2 distinct ids and mode E really reused the cache file of '
                'every source (seen in --debug-analyzerinfo output)')
    _witness(ctx, 'dupname')          # the generator never produces duplicate names
    chains = not _witness(ctx, 'nestedcall')
    samefile = not _witness(ctx, 'staticfn')
    if not chains:
        ctx.count('exclusions', 'no call chains over 3+ functions generated (witness:nested-call-lost-with-builddir '
                                're-observed)')
    if not samefile:
        ctx.count('exclusions', 'no C function called only from its own file generated '
                                '(witness:staticFunction-missing-with-builddir re-observed)')
    n = ctx.n(48, 1500)
    pmap(lambda i: _case(ctx, i, chains, samefile), list(range(n)), workers=6 if ctx.quick() else 10)
