"""C17 — A file's findings do not depend on the other files in the run.

Oracle: a generated file set is analysed once together with `-j1` (one CppCheck object is reused for
all files) in a random order, a second time in another order, and every file alone, with the same
options.  For each source file F the multiset of findings whose primary location is in F
(whole-program ids excluded) must be the same in the combined runs and in F's solo run; for findings
located in shared headers the *set* of the combined run must equal the union over the solo runs (the
cross-file duplicate filter legitimately collapses multiplicity there).
"""
import json
import os
import shutil

from .. import cases, findings
from ..run import pmap
from ..core import sha1
from ..gen import projgen, supprgen

PID = 'C17'
FLAVOURS = ['mon']
META = {
    'technique': 'differential run monitor: combined -j1 run (random file orders) vs each file alone, findings '
                 'projected onto the file / onto shared headers',
    'level_text': 'Sampled exploration: generated file sets (same-named macros defined differently per file, shared '
                  'headers with findings, inline and command-line suppressions, optional markup file, optional '
                  'per-file settings from a compilation database) analysed together in two random orders and '
                  'file by file; per-file finding multisets and header finding sets must agree.',
    'level_note': 'ids that may come from whole-program analysis (ctu*, unusedFunction, staticFunction) are outside '
                  'the statement and not compared, neither is the unmatched state of suppressions of such ids; '
                  'remark comments are not observed (not part of the parsed XML tuple).',
    'design_ref': 'DESIGN.md §3 C17',
}

MARKUP_CFG = '''<?xml version="1.0"?>
<def>
  <markup ext=".mkp" reporterrors="false" aftercode="true">
    <keywords>
      <keyword name="if"/>
      <keyword name="for"/>
    </keywords>
    <codeblocks>
      <block name="onClicked"/>
      <structure offset="3" start="{" end="}"/>
    </codeblocks>
    <imported>
      <importer>connect</importer>
    </imported>
  </markup>
</def>
'''

MARKUP_FILE = '''Item {
    id: root
    onClicked: {
        zd_f0_1(3)
        helper(root)
    }
}
'''


def _add_macro_blocks(rng, proj):
    """same macro name, different definition per file; the finding depends on the file's own definition"""
    for i, name in enumerate(proj.sources):
        k = rng.choice([0, 1, 2, 3, 4, 7])
        blk = ('\n#define SAMEMAC %d\n'
               '#ifndef PERFILE\n#define PERFILE 1\n#endif\n'
               'int mac_%d(void) {\n    int a[3] = {0, 0, 0};\n    return a[SAMEMAC] + a[PERFILE];\n}\n'
               '#define DEREF_%d(p) (*(p))\n'
               'int macuse_%d(void) {\n    int *q = 0;\n    return DEREF_%d(q) + SAMEMAC;\n}\n' % (k, i, i, i, i))
        proj.files[name] += blk


def _project_onto(fs, srcs, hdrs, strip, other=None):
    """-> (dict source -> list[Finding], set of canonical header findings)"""
    per = {s: [] for s in srcs}
    hdr = set()
    for f in fs:
        if cases.is_whole_program(f.id):
            continue
        if f.id == 'unmatchedSuppression' and cases.glob_hits_whole_program(f.msg.rsplit(': ', 1)[-1]):
            continue
        if strip:
            f = f._replace(locs=tuple((_rel(l[0], strip),) + tuple(l[1:]) for l in f.locs))
        p = findings.primary(f)[0]
        if p in per:
            per[p].append(f)
        elif p in hdrs:
            hdr.add(findings.key(f))
        elif p and p != '*' and other is not None:
            other.append(p)
    return per, hdr


def _rel(path, root):
    if path.startswith(root + '/'):
        return path[len(root) + 1:]
    return path


def _case(ctx, idx):
    rng = ctx.subrng('case', idx)
    proj = projgen.gen(rng, nfiles=(2, 5 if ctx.quick() else 8), headers=True, ctu=True,
                       subdirs=rng.random() < 0.25)
    _add_macro_blocks(rng, proj)
    d = ctx.tmpdir('c%d' % idx)
    src = os.path.join(d, 'src')
    enable = rng.choice(['all', 'all', 'warning,style,performance,portability', 'style,information'])
    base = ['-q', '--enable=' + enable, '-j1']
    if rng.random() < 0.5:
        base.append('--inconclusive')
    if rng.random() < 0.25:
        base.append('-DLOCALMAC=%d' % rng.randint(1, 3))
    if rng.random() < 0.2:
        base.append('--check-level=exhaustive')
    # ground truth without suppressions to seed suppressions that match something
    proj.write(src)
    a0 = cases.analyse(src, base + proj.sources)
    seedable = [f for f in a0.findings if not cases.is_whole_program(f.id)]
    proj2, inserted = supprgen.add_inline(rng, proj, seedable, frac=0.3, unmatched=rng.randint(0, 2), blocks=0.3)
    shutil.rmtree(src)
    proj2.write(src)
    cmd_suppr = []
    for o in supprgen.cmdline_set(rng, seedable, proj.sources, n=(0, 2)):
        if o not in cmd_suppr:     # cppcheck rejects a command line with the same suppression twice
            cmd_suppr.append(o)
    opts = base + ['--inline-suppr'] + cmd_suppr
    srcs = list(proj2.sources)
    hdrs = set(f for f in proj2.files if f not in srcs)
    extra_files = []
    if rng.random() < 0.25:
        with open(os.path.join(src, 'mk.cfg'), 'w') as f:
            f.write(MARKUP_CFG)
        with open(os.path.join(src, 'ui.mkp'), 'w') as f:
            f.write(MARKUP_FILE)
        opts.append('--library=mk.cfg')
        extra_files = ['ui.mkp']
    use_cdb = rng.random() < 0.3
    perfile = {s: rng.choice([0, 1, 2, 5]) for s in srcs}

    def runit(files, tag):
        if use_cdb:
            # per-file settings: each entry has its own -DPERFILE (changes mac_<i>'s finding)
            cdb = [{'directory': src, 'file': f,
                    'command': 'gcc -DPERFILE=%d -c %s' % (perfile[f], f)} for f in files if f in perfile]
            path = os.path.join(src, 'cdb_%s.json' % tag)
            with open(path, 'w') as fh:
                json.dump(cdb, fh)
            return cases.analyse(src, opts + ['--project=' + os.path.basename(path)])
        return cases.analyse(src, opts + files)

    strip = os.path.realpath(src) if use_cdb else None
    order1 = srcs + ([] if use_cdb else extra_files)
    rng.shuffle(order1)
    order2 = list(order1)
    rng.shuffle(order2)
    if order2 == order1:
        order2.reverse()
    comb = [runit(order1, 'comb1'), runit(order2, 'comb2')]
    solo = {s: runit([s], 'solo%d' % k) for k, s in enumerate(srcs)}
    allruns = comb + list(solo.values())
    if any(a.res.timed_out for a in allruns):
        ctx.inconclusive('watchdog fired on case %d' % idx)
        return
    digest = sha1(proj2.digest(), repr(opts), repr(sorted(perfile.items())) if use_cdb else '')
    bad = [a for a in allruns if not a.xml_ok or cases.crashed(a.res)]
    if bad:
        ctx.violation('case:%s:crash-or-bad-xml' % digest,
                      'a run crashed or produced malformed XML (rc=%s)\n%s' % (bad[0].rc, bad[0].res.etext()[-1500:]),
                      files={'project': '@' + src}, cmd='cd project && ' + bad[0].res.cmdline())
        return
    ctx.ev()
    solo_per = {}
    solo_hdr = set()
    for s, a in solo.items():
        per, hdr = _project_onto(a.findings, srcs, hdrs, strip)
        solo_per[s] = per[s]
        solo_hdr |= hdr
        # a solo run must not report anything located in another source file
        for other, fl in per.items():
            if other != s and fl:
                ctx.count('notes', 'solo-run-reports-in-other-source')
    files_with = 0
    ids = set()
    for ci, a in enumerate(comb):
        unproj = []
        per, hdr = _project_onto(a.findings, srcs, hdrs, strip, unproj)
        for pth in unproj:
            ctx.count('unprojected_primary_locations', os.path.basename(pth) if os.path.isabs(pth) else pth)
        order = order1 if ci == 0 else order2
        for s in srcs:
            oa, ob = findings.diff(per[s], solo_per[s])
            if ci == 0:
                for f in per[s]:
                    ctx.count('finding_ids_in_file', f.id)
                    ids.add(f.id)
                files_with += 1 if per[s] else 0
            if oa or ob:
                first = (oa or ob)[0][0]
                ctx.violation('case:%s:combined-vs-solo:%s' % (digest, first),
                              'findings located in %s differ between the combined -j1 run (order %s) and the run of '
                              '%s alone\n%s' % (s, ' '.join(order), s, cases.fmt_diff(oa, ob, 'combined', 'alone')),
                              files={'project': '@' + src},
                              cmd='cd project && %s\n# alone:\ncd project && %s' % (a.res.cmdline(),
                                                                                    solo[s].res.cmdline()))
        if hdr != solo_hdr:
            only_c = sorted(hdr - solo_hdr, key=repr)
            only_s = sorted(solo_hdr - hdr, key=repr)
            first = (only_c or only_s)[0][0]
            ctx.violation('case:%s:combined-vs-solo-headers:%s' % (digest, first),
                          'set of findings located in shared headers differs between the combined -j1 run (order %s) '
                          'and the union of the solo runs\n%s' % (
                              ' '.join(order), cases.fmt_diff(only_c, only_s, 'combined', 'union-of-solo')),
                          files={'project': '@' + src}, cmd='cd project && ' + a.res.cmdline())
        if ci == 0:
            for k in hdr:
                ctx.count('finding_ids_in_headers', k[0])
            nhdr = len(hdr)
    ctx.count('shapes', 'compile-db (per-file -D)' if use_cdb else 'file list')
    if extra_files:
        ctx.count('shapes', 'with markup file')
    ctx.count('shapes', 'files=%d' % len(srcs))
    if files_with >= 2 and len(ids) >= 2:
        ctx.trivial_or(digest)
    ctx.sample({'files': order1, 'second_order': order2, 'options': opts, 'compile_db': use_cdb,
                'inline_suppressions': len(inserted), 'files_with_own_findings': files_with,
                'header_findings': nhdr})
    shutil.rmtree(d, ignore_errors=True)


def run(ctx):
    ctx.rule = ('case = generated file set (2-8 sources, shared headers, per-file macro redefinitions, inline and '
                'command-line suppressions, optional markup file / compilation database) analysed together with -j1 '
                'in two orders and file by file; non-trivial = at least 2 files have findings of their own and at '
                'least 2 distinct ids were compared')
    n = ctx.n(80, 3000)
    pmap(lambda i: _case(ctx, i), list(range(n)), workers=6 if ctx.quick() else 10)
