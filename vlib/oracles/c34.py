"""C34 — Addon results are relayed faithfully.

Monitor: generated scripts for the scripted addon (harness/scripted_addon.py: it prints, for every
dump file and for the whole-program `.ctu-info` call, exactly the lines the case prescribes and logs
each invocation).  The findings cppcheck reports (XML) and the `.ctu-info` content the addon's
whole-program invocation really received are compared with an executable reading of
executeAddon/executeAddons (vlib/gen/addongen.py): well-formed findings of an enabled severity
appear exactly once as `<addon>-<errorId>` with location/severity/message/cwe/hash unless
suppressed; summaries arrive unaltered; malformed lines are skipped or give one internalError per
invocation; never a crash.
"""
import json
import os
import shutil

from .. import cases, findings as F
from ..core import sha1
from ..gen import addongen as AG
from ..models import suppress as SM, severitygate
from ..run import pmap, cppcheck

PID = 'C34'
FLAVOURS = ['mon', 'asan']
META = {
    'technique': 'scripted addon + run monitor: reported findings and whole-program .ctu-info input vs. an '
                 'executable reading of the addon-output protocol',
    'level_text': 'Sampled exploration: generated addon outputs (well-formed findings in file/loc[] form with '
                  'all and unknown severities, cwe, hash, symbols; summaries, metrics, Checking/empty lines, '
                  'truncated JSON, wrong shapes/types, garbage, long lines, failing exit codes) x build dir x '
                  '-j1/thread/process x command-line and inline suppressions x --enable subsets, on the mon and '
                  'asan builds. Evidence counts line kinds, outcomes and invocations actually observed.',
    'level_note': 'Line/column values are kept within 0..2^31-1 / 0..5000 (larger values are truncated to int and a '
                  'huge column makes {code} rendering allocate column-many spaces); raw NUL bytes are not emitted. '
                  'Summaries of an invocation that ends in an internal error may or may not be forwarded.',
    'design_ref': 'DESIGN.md §3 C34',
}

KNOWN_DIR = os.path.join(os.path.dirname(os.path.dirname(os.path.dirname(os.path.abspath(__file__)))), 'known', 'C34')
ADDON_NAMES = ['scr', 'my.addon', 'x_y', 'A1']
UNKNOWN_SEVS = ['none', 'internal', 'debug', '', 'Error', 'critical', 'note', 'WARNING', 'style ']
ENABLES = [None, 'warning', 'style', 'performance,portability', 'information', 'all', 'warning,information']
WORDS = 'abcdefghijklmnopqrstuvwxyzABCDEFGHIJKLMNOPQRSTUVWXYZ0123456789_'


def _ident(rng, lo=1, hi=8):
    return rng.choice(WORDS[:52]) + ''.join(rng.choice(WORDS) for _ in range(rng.randint(lo, hi) - 1))


def _fname(rng):
    r = rng.random()
    if r < 0.4:
        return 'other/' + _ident(rng) + '.h'
    if r < 0.7:
        return rng.choice(['sp ace.h', "q'uote.h", 'amp&.h', 'lt<gt>.h', 'dq".h', 'unié中.h', 'semi;colon.c',
                           'co:lon.h', 'pct%s.h', '#hash.h', '[br].h', 'star*.h'])
    return '/abs/' + _ident(rng) + '/' + _ident(rng) + '.c'


def _json_value(rng, depth=0, nonascii=True):
    r = rng.random()
    if r < 0.3 or depth > 2:
        w = ['n', 'id_' + _ident(rng), 'a b', 'q"uote', 'back\\slash', '<&>', 'tab\there', 'nl\nx', '\x01\x7f']
        if nonascii:
            w += ['xé', '中', '\U0001f600']
        return rng.choice(w)
    if r < 0.5:
        return rng.randint(-1000, 100000)
    if r < 0.58:
        return rng.randint(0, 40) / 4.0
    if r < 0.66:
        return rng.choice([True, False, None])
    if r < 0.83:
        return [_json_value(rng, depth + 1, nonascii) for _ in range(rng.randint(0, 3))]
    return {_ident(rng): _json_value(rng, depth + 1, nonascii) for _ in range(rng.randint(0, 3))}


class Gen:
    """one case's script generator; tags make every generated finding distinct"""

    def __init__(self, rng, sources, nonascii_summaries=True):
        self.rng = rng
        self.sources = sources   # name -> number of lines
        self.ntag = 0
        self.nonascii_summaries = nonascii_summaries

    def finding(self, primary_file, ctu=False):
        rng = self.rng
        self.ntag += 1
        msg = '#%d %s' % (self.ntag, AG.text(rng, maxlen=60, invalid=rng.random() < 0.5, long_p=0.02))
        if rng.random() < 0.2:
            msg += '\nverbose ' + AG.text(rng, maxlen=60, newline=True).rstrip('\n') + '.'
        if rng.random() < 0.15:
            msg = ''.join('$symbol:%s\n' % _ident(rng) for _ in range(rng.randint(1, 2))) + msg
        sev = rng.choice(AG.SEVERITIES) if rng.random() < 0.85 else rng.choice(UNKNOWN_SEVS)
        o = {}
        nlines = self.sources.get(primary_file, 10)
        line = rng.choice([rng.randint(1, nlines), rng.randint(1, nlines), 0, nlines + rng.randint(1, 50),
                           rng.choice([65535, 65536, 2 ** 31 - 1])])
        col = rng.choice([0, 1, rng.randint(1, 80), rng.randint(1, 5000)])
        form = rng.random()
        if form < 0.6:
            o['file'] = primary_file
            o['linenr'] = line
            o['column'] = col
        elif form < 0.93:
            locs = []
            for _ in range(rng.randint(0, 3)):
                locs.append({'file': rng.choice(list(self.sources) + [_fname(rng)]), 'linenr': rng.randint(0, 300),
                             'column': rng.randint(0, 100),
                             'info': rng.choice(['', 'note ' + AG.text(rng, maxlen=30, invalid=False)])})
            locs.append({'file': primary_file, 'linenr': line, 'column': col,
                         'info': rng.choice(['', 'here', AG.text(rng, maxlen=30, invalid=False)])})
            o['loc'] = locs
        # else: no location at all
        o['severity'] = sev
        o['message'] = msg
        o['addon'] = rng.choice(ADDON_NAMES)
        o['errorId'] = rng.choice(['e', 'rule', 'R']) + rng.choice(['', '_', '-', '.']) + str(rng.randint(1, 30))
        if rng.random() < 0.5:
            o['extra'] = rng.choice(['', 'Required', 'x'])
        if rng.random() < 0.3:
            o['cwe'] = rng.choice([0, rng.randint(1, 1400), 65535])
        if rng.random() < 0.3:
            o['hash'] = rng.choice([0, rng.randint(1, 2 ** 62), 2 ** 63 - 1])
        if rng.random() < 0.3:
            items = list(o.items())
            rng.shuffle(items)
            o = dict(items)
        return o

    def wrongtype(self, primary_file):
        rng = self.rng
        o = self.finding(primary_file)
        bad = [None, True, 1.5, 'str', 7, [], {}, 2 ** 70, [1], {'a': 1}]
        keys = [k for k in ('file', 'linenr', 'column', 'loc', 'severity', 'message', 'addon', 'errorId', 'cwe',
                            'hash') if k in o]
        k = rng.choice(keys + ['cwe', 'hash', 'metric'])
        r = rng.random()
        if k == 'loc' and r < 0.5 and isinstance(o['loc'], list) and o['loc']:
            e = rng.choice(o['loc'])
            kk = rng.choice(['file', 'linenr', 'column', 'info'])
            if rng.random() < 0.4:
                del e[kk]
            else:
                e[kk] = rng.choice([b for b in bad if type(b) is not type(e[kk])])
        elif r < 0.3 and k in o and k not in ('cwe', 'hash', 'file', 'loc'):
            del o[k]
        else:
            cur = o.get(k)
            o[k] = rng.choice([b for b in bad if type(b) is not type(cur) or k == 'metric'])
        return o

    def lines_for(self, primary_file, n, ctu=False):
        """-> list of (kind, bytes)"""
        rng = self.rng
        out = []
        prev = []
        for _ in range(n):
            r = rng.random()
            if r < 0.52:
                b = AG.jdump(self.finding(primary_file, ctu), rng)
                prev.append(b)
                out.append(('finding', b))
            elif r < 0.56 and prev:
                out.append(('dup', rng.choice(prev)))
            elif r < 0.65:
                o = {'summary': rng.choice(['misra', _ident(rng), 'S']),
                     'data': _json_value(rng, nonascii=self.nonascii_summaries)}
                if rng.random() < 0.3:
                    o['file'] = primary_file
                out.append(('summary', AG.jdump(o, rng)))
            elif r < 0.68:
                o = {'metric': {'fileName': primary_file, 'function': _ident(rng), 'id': 'HIS-x',
                                'lineNumber': rng.randint(1, 99), 'value': rng.randint(0, 50)}}
                out.append(('metric', AG.jdump(o, rng)))
            elif r < 0.72:
                out.append(('checking', b'Checking ' + AG.enc(AG.text(rng, maxlen=30, invalid=False)) + b'...'))
            elif r < 0.78:
                out.append(('empty', b''))
            elif r < 0.84:
                b = AG.jdump(self.finding(primary_file, ctu), rng)
                out.append(('truncated-json', b[:rng.randint(1, len(b) - 1)]))
            elif r < 0.87:
                out.append(('brace-junk', b'{junk ' + AG.enc(AG.text(rng, maxlen=40, invalid=False).replace('\n', ' '))))
            elif r < 0.92:
                # exclusion named by known finding C34 witness:ctu-type-mismatch-abort: a line of wrong
                # shape in the whole-program invocation aborts cppcheck, so only per-file invocations get them
                out.append(('mutated-shape', AG.jdump(self.wrongtype(primary_file), rng)))
            elif r < 0.945:
                g = rng.choice([b'[1,2]', b'null', b'42', b'"str"', b' {"file":"a"}', b'Traceback (most recent call last):',
                                b'garbage', AG.enc(AG.text(rng, maxlen=50, invalid=True).replace('\n', ' ')),
                                b'x' * rng.choice([1023, 1024, 1025, 70000])])
                if g == b'' or g[:1] == b'{' or g.startswith(b'Checking '):
                    g = b'?' + g
                out.append(('non-json-line', g))
            else:
                b = AG.jdump(self.finding(primary_file, ctu), rng)
                out.append(('finding', b))
                prev.append(b)
        return out


def _source(rng, name, nlines):
    """source with `nlines` lines; odd lines comments (slots for inline suppressions), even lines code"""
    lines = []
    for i in range(1, nlines + 1):
        if i % 2:
            lines.append('// filler %d' % i)
        else:
            lines.append('int %s_%d(int x) { return x + %d; }' % (name.split('.')[0].replace('/', '_'), i, i))
    return lines


def _numnorm(o):
    """3.0 and 3 are the same JSON number"""
    if isinstance(o, float) and o.is_integer():
        return int(o)
    if isinstance(o, list):
        return [_numnorm(x) for x in o]
    if isinstance(o, dict):
        return {k: _numnorm(v) for k, v in o.items()}
    return o


def _to_finding(ef):
    """EF -> findings.Finding (primary location first) for the suppression model"""
    locs = tuple(reversed(ef.locs))
    return F.Finding(ef.id, ef.severity, False, ef.short, ef.verbose, ef.file0, locs, tuple(ef.symbols),
                     str(ef.cwe) if ef.cwe else '')


def build_case(ctx, rng, d, flavour, forced=None):
    """generate one case under directory d -> dict describing it"""
    src = os.path.join(d, 'src')
    os.makedirs(src)
    forced = forced or {}
    use_bd = forced.get('bd', rng.random() < 0.5)
    jobs = forced.get('jobs', rng.choice([['-j1'], ['-j1'], ['-j2', '--executor=thread'], ['-j3', '--executor=process']]))
    enable = forced.get('enable', rng.choice(ENABLES))
    names = rng.sample(['a.c', 'b.c', 'sub/c.cpp', 'd e.c'], rng.randint(1, 3))
    sources = {}
    texts = {}
    for n in names:
        nl = rng.randint(6, 24)
        sources[n] = nl
        texts[n] = _source(rng, n, nl)
    # known finding C34 witness:summary-nonascii-process-nobuilddir: the process executor without a build
    # dir forwards summaries through ErrorMessage serialisation, which octal-escapes non-ASCII bytes
    nonascii = not (not use_bd and '--executor=process' in jobs)
    g = Gen(rng, sources, nonascii_summaries=nonascii)
    script = AG.Script()
    per_file = {}
    for n in names:
        kl = g.lines_for(n, rng.choice([0, 1, 2, 4, 6, 9, 12]))
        code = 0 if rng.random() < 0.93 else rng.choice([1, 2, 3, 127, 255])
        per_file[n] = (kl, code)
        script.files[n] = ([b for _k, b in kl], code)
    ctu_kl = g.lines_for(rng.choice(names), rng.choice([0, 0, 1, 2, 4]), ctu=True)
    ctu_code = 0 if rng.random() < 0.95 else rng.choice([1, 9])
    script.ctu = ([b for _k, b in ctu_kl], ctu_code)

    enabled = severitygate.effective(enable.split(',')) if enable else set()
    if enable == 'all':
        enabled = set(enabled) | {'debug'}     # --enable=all switches every severity on, debug included
    outcomes = {n: AG.model_invocation(script.files[n][0], script.files[n][1], n, enabled) for n in names}
    ctu_out = AG.model_invocation(script.ctu[0], script.ctu[1], '', enabled)

    # suppressions aimed at expected findings
    allf = [f for n in names for f in outcomes[n].findings]
    supp_opts = []
    inline = rng.random() < 0.5
    if allf and rng.random() < 0.7:
        for f in rng.sample(allf, min(len(allf), rng.randint(1, 3))):
            p = f.primary()
            r = rng.random()
            if r < 0.3:
                supp_opts.append(f.id)
            elif r < 0.45:
                supp_opts.append(f.id.split('-')[0] + '-*')
            elif r < 0.75 and p and p[0] in sources and ' ' not in p[0]:
                supp_opts.append('%s:%s' % (f.id, p[0]))
            elif p and p[0] in sources and ' ' not in p[0]:
                supp_opts.append('%s:%s:%d' % (f.id, p[0], p[1]))
        if rng.random() < 0.3:
            supp_opts.append('scr-nomatch%d' % rng.randint(1, 9))
    supp_opts = sorted(set(supp_opts))     # a repeated --suppress is a command line error
    if inline:
        for n in names:
            for f in outcomes[n].findings:
                p = f.primary()
                if p and p[0] == n and 2 <= p[1] <= sources[n] and p[1] % 2 == 0 and rng.random() < 0.3 \
                        and all(c.isalnum() or c in '_-' for c in f.id):
                    texts[n][p[1] - 2] = '// cppcheck-suppress %s' % f.id
    for n in names:
        cases.write(os.path.join(src, n), '\n'.join(texts[n]) + '\n')
    addon_json = AG.write_addon_json(d)
    script_path = os.path.join(d, 'script.json')
    script.write(script_path)
    opts = ['-q', '--addon=' + addon_json] + jobs
    if enable:
        opts.append('--enable=' + enable)
    if inline:
        opts.append('--inline-suppr')
    opts += ['--suppress=' + s for s in supp_opts]
    supprs = [SM.parse_spec(s) for s in supp_opts]
    if inline:
        for n in names:
            supprs += SM.inline_suppressions('\n'.join(texts[n]) + '\n', n)
    return {'src': src, 'names': names, 'opts': opts, 'use_bd': use_bd, 'script': script, 'script_path': script_path,
            'per_file': per_file, 'ctu_kl': ctu_kl, 'outcomes': outcomes, 'ctu_out': ctu_out, 'supprs': supprs,
            'enable': enable, 'jobs': jobs, 'flavour': flavour, 'inline': inline, 'd': d}


def run_case(ctx, c, label):
    """run cppcheck on a built case and judge it. label: stable prefix for violation keys"""
    d, src = c['d'], c['src']
    opts = list(c['opts'])
    if c['use_bd']:
        bd = os.path.join(d, 'bd')
        os.makedirs(bd, exist_ok=True)
        opts.append('--cppcheck-build-dir=' + bd)
    log = os.path.join(d, 'addon.log')
    env = {'VERIF_ADDON_SCRIPT': c['script_path'], 'VERIF_ADDON_LOG': log}
    a = cases.analyse(src, opts + c['names'], flavour=c['flavour'], env=env, timeout=300)
    ctx.ev()
    ctx.count('runs', '%s/%s/%s' % (c['flavour'], ' '.join(c['jobs']), 'builddir' if c['use_bd'] else 'nobuilddir'))
    cmd = 'cd src && VERIF_ADDON_SCRIPT=../script.json VERIF_ADDON_LOG=addon.log %s' % a.res.cmdline()
    files = {'src': '@' + src, 'script.json': '@' + c['script_path'], 'scr.json': '@' + os.path.join(d, 'scr.json')}

    def viol(rule, what):
        ctx.violation('%s:%s' % (label, rule), what + '\noptions: %s' % ' '.join(opts), files=files, cmd=cmd)

    if a.res.timed_out:
        ctx.inconclusive('watchdog fired on %s' % label)
        return None
    if b'cppcheck: error:' in a.res.out and not cases.crashed(a.res):
        ctx.count('skipped', 'command-line-rejected')
        ctx.sample({'rejected': a.res.otext()[:200]})
        return None
    if cases.crashed(a.res):
        viol('crash', 'cppcheck crashed/aborted (rc=%s) while relaying addon output\n%s' % (a.rc, a.res.etext()[-1200:]))
        return None
    try:
        got_all = AG.parse_results_xml(a.res.err)
    except Exception as e:   # noqa: any parser error
        viol('bad-xml', 'XML report not parseable: %s\n%s' % (e, a.res.etext()[-800:]))
        return None
    prefixes = tuple(n + '-' for n in ADDON_NAMES)
    got = [g for g in got_all if g[0].startswith(prefixes)]
    got_ie = [g for g in got_all if g[0] == 'internalError']

    # ---- expected
    names = c['names']
    exp = {}
    undecided = 0
    suppressed = 0
    for out in [c['outcomes'][n] for n in names] + [c['ctu_out']]:
        for ef in out.findings:
            v = SM.verdict(c['supprs'], _to_finding(ef))
            if v is None:
                undecided += 1
                exp.setdefault(ef.xml_key(), [ef, None])
                exp[ef.xml_key()][1] = 'maybe'
                continue
            if v:
                suppressed += 1
                continue
            exp.setdefault(ef.xml_key(), [ef, 'must'])
    ctx.count('expected', 'relayed', sum(1 for v in exp.values() if v[1] == 'must'))
    ctx.count('expected', 'suppressed', suppressed)
    ctx.count('expected', 'suppression-undecided', undecided)
    import collections
    gotc = collections.Counter(got)
    for k, (ef, mode) in exp.items():
        n = gotc.get(k, 0)
        if mode == 'must' and n == 0:
            near = [g for g in got if ef.short and AG.fix_invalid_chars(ef.short).split(' ')[0] == g[3].split(' ')[0]]
            viol('finding-missing-or-altered:%s' % sha1(ef.digest_src()),
                 'addon finding not relayed faithfully.\nexpected: %r\nclosest reported: %r' % (k, near[:1]))
        elif n > 1:
            viol('finding-duplicated:%s' % sha1(ef.digest_src()), 'addon finding reported %d times: %r' % (n, k))
    for k in gotc:
        if k not in exp:
            # a suppressed or filtered finding shown, or an invented one
            viol('finding-unexpected:%s' % sha1(repr(k)),
                 'reported addon finding that the addon output does not justify (suppressed, filtered '
                 'or altered): %r' % (k,))
    # ---- internal errors: one per failing invocation, at (file, 0, 0)
    exp_ie = collections.Counter()
    for n in names:
        if c['outcomes'][n].internal_error:
            exp_ie[n] += 1
            ctx.count('internal_error_causes', c['outcomes'][n].internal_error.split(':')[0])
    if c['ctu_out'].internal_error:
        exp_ie[''] += 1
        ctx.count('internal_error_causes', 'ctu:' + c['ctu_out'].internal_error.split(':')[0])
    got_iec = collections.Counter(g[5][0][0] if g[5] else None for g in got_ie)
    ie_suppressed = any(SM.glob_match(s.id, 'internalError') for s in c['supprs'])
    if not ie_suppressed and got_iec != exp_ie:
        viol('internal-error-count', 'internalError findings per file differ: expected %r, reported %r\n%s'
             % (dict(exp_ie), dict(got_iec), '\n'.join(repr(g[3][:200]) for g in got_ie)))
    # ---- invocations and summaries
    recs = AG.read_log(log)
    dumps = collections.Counter(r['source'] for r in recs if r['kind'] == 'dump')
    ctus = [r for r in recs if r['kind'] == 'ctu']
    if dumps != collections.Counter(names):
        viol('dump-invocations', 'addon invoked on dumps of %r, files analysed %r' % (dict(dumps), names))
    if len(ctus) != 1:
        viol('ctu-invocations', 'whole-program addon invocation observed %d times (expected 1)' % len(ctus))
    else:
        content = b''.join(v or b'' for v in ctus[0]['ctu_files'].values())
        got_sum = []
        bad_lines = []
        for l in content.split(b'\n'):
            if not l.strip():
                continue
            try:
                got_sum.append(json.loads(l.decode('utf-8')))
            except (ValueError, UnicodeDecodeError):
                bad_lines.append(l)
        must = [s for n in names if not c['outcomes'][n].internal_error for s in c['outcomes'][n].summaries]
        may = [s for n in names if c['outcomes'][n].internal_error for s in c['outcomes'][n].summaries]
        ctx.count('summaries', 'expected-to-arrive', len(must))
        ctx.count('summaries', 'arrived', len(got_sum))
        canon = lambda o: json.dumps(_numnorm(o), sort_keys=True)   # noqa
        gc = collections.Counter(canon(o) for o in got_sum)
        mc = collections.Counter(canon(o) for o in must)
        yc = collections.Counter(canon(o) for o in may)
        if bad_lines:
            viol('summary-altered', '.ctu-info given to the whole-program addon call has %d line(s) that are not '
                 'valid JSON: %r\nexpected summaries: %r' % (len(bad_lines), bad_lines[:2], list(mc)[:3]))
        else:
            lost = mc - gc
            extra = gc - mc - yc
            if lost:
                viol('summary-lost', 'summaries not forwarded to the whole-program phase: %r\narrived: %r'
                     % (list(lost)[:3], list(gc)[:3]))
            if extra:
                viol('summary-unexpected', 'summaries in .ctu-info that no addon printed: %r' % (list(extra)[:3],))
    for n in names:
        for k, _b in c['per_file'][n][0]:
            ctx.count('line_kinds', k)
    for k, _b in c['ctu_kl']:
        ctx.count('line_kinds', 'ctu:' + k)
    for out in list(c['outcomes'].values()) + [c['ctu_out']]:
        for k, v in out.skipped.items():
            ctx.count('skipped_lines', k, v)
    relayed = sum(gotc.values())
    ctx.count('observed', 'addon-findings-reported', relayed)
    ctx.count('observed', 'internalError-reported', len(got_ie))
    return {'relayed': relayed, 'ctu_seen': len(ctus), 'internal_errors': len(got_ie)}


def _case(ctx, idx, flavour):
    rng = ctx.subrng('case', flavour, idx)
    d = ctx.tmpdir('%s%d' % (flavour, idx))
    c = build_case(ctx, rng, d, flavour)
    label = 'addon:%s' % sha1(c['script'].digest_text(), ' '.join(c['opts']), str(c['use_bd']))
    r = run_case(ctx, c, label)
    if r and r['relayed'] >= 1 and r['ctu_seen'] == 1:
        ctx.trivial_or(label)
    if r:
        ctx.sample({'files': c['names'], 'options': [o for o in c['opts'] if not o.startswith('--addon')],
                    'build_dir': c['use_bd'], 'lines': {n: len(c['per_file'][n][0]) for n in c['names']},
                    'reported_addon_findings': r['relayed'], 'internal_errors': r['internal_errors']})
    shutil.rmtree(d, ignore_errors=True)


# ------------------------------------------------------------------ known witnesses (replayed every run)
def _witness_ctu_mismatch(ctx):
    """whole-program addon invocation prints a finding with "linenr": "1" -> uncaught runtime_error"""
    for use_bd in (False, True):
        d = ctx.tmpdir('w-ctu-%d' % use_bd)
        src = os.path.join(d, 'src')
        cases.write(os.path.join(src, 'a.c'), 'int f(int x) { return x; }\n')
        script = AG.Script()
        script.files['a.c'] = ([], 0)
        script.ctu = ([open(os.path.join(KNOWN_DIR, 'ctu-type-mismatch-abort', 'ctu-line.json'), 'rb').read().strip()], 0)
        sp = os.path.join(d, 'script.json')
        script.write(sp)
        opts = ['-q', '--addon=' + AG.write_addon_json(d)]
        if use_bd:
            os.makedirs(os.path.join(d, 'bd'))
            opts.append('--cppcheck-build-dir=' + os.path.join(d, 'bd'))
        a = cases.analyse(src, opts + ['a.c'], env={'VERIF_ADDON_SCRIPT': sp})
        ctx.ev()
        ctx.count('witness_replays', 'ctu-type-mismatch-abort')
        if a.res.timed_out:
            ctx.inconclusive('watchdog fired on witness ctu-type-mismatch-abort')
        elif cases.crashed(a.res):
            ctx.violation('witness:ctu-type-mismatch-abort',
                          'cppcheck aborts (rc=%s) on a wrongly typed field in the whole-program addon output' % a.rc,
                          files={'src': '@' + src, 'script.json': '@' + sp}, cmd=a.res.cmdline())
        shutil.rmtree(d, ignore_errors=True)


def _witness_summary(ctx, name, data, jobs, use_bd):
    d = ctx.tmpdir('w-' + name)
    src = os.path.join(d, 'src')
    cases.write(os.path.join(src, 'a.c'), 'int f(int x) { return x; }\n')
    cases.write(os.path.join(src, 'b.c'), 'int g(int x) { return x; }\n')
    script = AG.Script()
    summ = {'summary': 'S', 'data': data}
    script.files['a.c'] = ([AG.jdump(summ)], 0)
    script.files['b.c'] = ([], 0)
    script.ctu = ([], 0)
    sp = os.path.join(d, 'script.json')
    script.write(sp)
    c = {'d': d, 'src': src, 'names': ['a.c', 'b.c'], 'opts': ['-q', '--addon=' + AG.write_addon_json(d)] + jobs,
         'use_bd': use_bd, 'script': script, 'script_path': sp, 'per_file': {'a.c': ([], 0), 'b.c': ([], 0)},
         'ctu_kl': [], 'outcomes': {'a.c': AG.model_invocation(script.files['a.c'][0], 0, 'a.c', set()),
                                    'b.c': AG.model_invocation([], 0, 'b.c', set())},
         'ctu_out': AG.model_invocation([], 0, '', set()), 'supprs': [], 'enable': None, 'jobs': jobs,
         'flavour': 'mon', 'inline': False}
    ctx.count('witness_replays', name)
    run_case(ctx, c, 'witness:' + name)
    shutil.rmtree(d, ignore_errors=True)


def _witness_filename(ctx, name, fname):
    """one source file called `fname`, the addon prints one well-formed error finding for it"""
    d = ctx.tmpdir('w-' + name)
    src = os.path.join(d, 'src')
    cases.write(os.path.join(src, fname), 'int f(int x) { return x; }\n')
    script = AG.Script()
    o = {'file': fname, 'linenr': 1, 'column': 5, 'severity': 'error', 'message': 'injected', 'addon': 'scr',
         'errorId': 'w'}
    script.files[fname] = ([AG.jdump(o)], 0)
    script.ctu = ([], 0)
    sp = os.path.join(d, 'script.json')
    script.write(sp)
    c = {'d': d, 'src': src, 'names': [fname], 'opts': ['-q', '--addon=' + AG.write_addon_json(d)],
         'use_bd': False, 'script': script, 'script_path': sp, 'per_file': {fname: ([], 0)},
         'ctu_kl': [], 'outcomes': {fname: AG.model_invocation(script.files[fname][0], 0, fname, set())},
         'ctu_out': AG.model_invocation([], 0, '', set()), 'supprs': [], 'enable': None, 'jobs': ['-j1'],
         'flavour': 'mon', 'inline': False}
    ctx.count('witness_replays', name)
    run_case(ctx, c, 'witness:' + name)
    shutil.rmtree(d, ignore_errors=True)


def run(ctx):
    ctx.rule = ('case = 1-3 source files + a generated addon script (0-12 lines per file and for the whole-program '
                'call) run under random --enable / -j / executor / build dir / suppressions; non-trivial = at least '
                'one addon finding was reported in the XML output AND the whole-program addon invocation (with its '
                '.ctu-info input) was observed in the scripted addon log')
    ctx.assumptions.append('addon line/column within int range (0..2^31-1 / 0..5000); no raw NUL bytes; summaries of an '
                           'invocation that ends in internalError are optional')
    _witness_ctu_mismatch(ctx)
    _witness_summary(ctx, 'summary-nonascii-process-nobuilddir', ['xé'], ['-j2', '--executor=process'], False)
    _witness_summary(ctx, 'summary-dollar-symbol-nobuilddir', ['see $symbol here'], ['-j1'], False)
    # generated cases use source names without shell metacharacters (exclusion named by this finding)
    _witness_filename(ctx, 'shell-metachar-in-file-name', 'semi;colon.c')
    _witness_filename(ctx, 'two-spaces-in-file-name', 'two  spaces.c')      # holds (kept as a regression probe)
    n_mon = ctx.n(40, 3000)
    n_asan = ctx.n(6, 400)
    items = [('mon', i) for i in range(n_mon)] + [('asan', i) for i in range(n_asan)]
    pmap(lambda it: _case(ctx, it[1], it[0]), items, workers=4 if ctx.quick() else 8)
