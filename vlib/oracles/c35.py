"""C35 — Clang-AST import yields a consistent program model.

Workload: progen C/C++ programs, featgen programs (self-contained: no #include), sample files —
only those `clang-14 -fsyntax-only` accepts (same -x/-std flags cppcheck passes).
`cppcheck --clang=<harness/clangwrap.sh> --dump` on the ASan+UBSan build; the wrapper runs the real
clang-14 with exactly the arguments cppcheck gives it and records everything cppcheck read from it, so
that every observation can be replayed deterministically (VERIF_CLANG_REPLAY=<record>).

Oracle: (1) no crash / sanitizer report / hang, in two modes: `plain` (clang's warnings reach cppcheck
as they do for a user) and `quiet` (the wrapper adds -w); (2) quiet mode, no internalError/
internalAstError/syntaxError reported => the dump passes the C14 invariant checker (vlib/dump.py) and
loads in cppcheckdata.py with an identical object graph; (3) quiet mode: every token with variable=
that sits where clang has a DeclRefExpr to a variable points to the <var> that stands for the
declaration clang resolved (clang -Xclang -ast-dump=json, same flags): same name, name token inside
the source range of that declaration (any redeclaration accepted; the importer places the name token
at the start of the declaration, not at the identifier), and the use->var mapping is consistent with
the use->declaration mapping of clang in both directions (no variable shared by two declarations, no
declaration split over variables declared at different places).
"""
import json
import os
import re
import shutil
import sys

from .. import build, sanreport, dump as vdump
from ..core import sha1
from ..gen import mutate, featgen
from ..run import pmap, run as run_cmd, base_env

PID = 'C35'
FLAVOURS = ['asan', 'mon']
META = {
    'technique': 'sanitizer gate + dump invariant checker + reference resolution by clang (JSON AST) on the --clang import',
    'level_text': 'Sampled exploration: generated C and C++ programs and sample files that clang-14 accepts are imported '
                  'through --clang by the ASan build (clang output recorded for deterministic replay); crashes are keyed by '
                  'frames; dumps of error-free imports are checked by the C14 invariant checker and the addon library, and '
                  'every variable link at a DeclRefExpr location is compared with the declaration clang resolved. Evidence '
                  'counts imports by outcome, internal-error kinds, dumps checked and DeclRefExprs compared.',
    'level_note': 'Invariant and link checks run only in quiet mode (-w): with warnings cppcheck reads clang\'s stdout and '
                  'stderr through one pipe and what it sees is not a function of the program alone.',
    'design_ref': 'DESIGN.md §3 C35',
}

CLANG = os.environ.get('VERIF_CLANG_EXE', 'clang-14')
WRAP = os.path.join(build.VERIF, 'harness', 'clangwrap.sh')
DUMPCMP = os.path.join(build.VERIF, 'harness', 'dumpcmp.py')
KNOWN_DIR = os.path.join(build.VERIF, 'known', 'C35')
TEMPLATE = 'F:{file}:{line}:{id}:{message}'
ERR_IDS = {'internalError', 'internalAstError', 'syntaxError', 'cppcheckError', 'unknownMacro'}
CPU, WALL = 120, 600


# -------------------------------------------------------------------------------- clang JSON AST
class Loc:
    __slots__ = ('file', 'line', 'col', 'macro')

    def __init__(self, file, line, col, macro):
        self.file, self.line, self.col, self.macro = file, line, col, macro


def resolve_locations(root):
    """Annotate every bare source location dict of clang's JSON AST with its file and line. The JSON
    writer prints "file" and "line" only when they differ from the previously printed location, in
    document order; replay that state machine. -> nothing (adds '_file', '_line' keys)."""
    state = {'file': None, 'line': None}

    def bare(d):
        if 'file' in d:
            state['file'] = d['file']
        if 'line' in d:
            state['line'] = d['line']
        d['_file'], d['_line'] = state['file'], state['line']

    # pre-order walk in key order (= document order)
    def walk(n):
        if isinstance(n, dict):
            if 'offset' in n and 'col' in n:
                bare(n)
                return
            for _k, v in n.items():
                if isinstance(v, (dict, list)):
                    walk(v)
        elif isinstance(n, list):
            for v in n:
                walk(v)

    sys.setrecursionlimit(max(sys.getrecursionlimit(), 20000))
    walk(root)


def loc_of(d):
    """location dict (possibly with spellingLoc/expansionLoc) -> Loc or None"""
    if d is None:
        return None
    if 'expansionLoc' in d or 'spellingLoc' in d:
        e = d.get('expansionLoc') or {}
        if '_line' not in e:
            return None
        return Loc(e.get('_file'), e.get('_line'), e.get('col'), True)
    if '_line' not in d:
        return None
    return Loc(d.get('_file'), d.get('_line'), d.get('col'), False)


def clang_refs(ast, mainfile):
    """-> (list of (use Loc, name, frozenset of (line, col) of the declarations of that variable (identity of the
    declaration clang resolved), list of ((line, col), (line, col)) source ranges of those declarations),
    number of DeclRefExprs seen)"""
    resolve_locations(ast)
    decls = {}
    ranges = {}
    prev = {}
    refs = []
    nseen = 0
    stack = [ast]
    while stack:
        n = stack.pop()
        if isinstance(n, list):
            stack.extend(n)
            continue
        if not isinstance(n, dict):
            continue
        k = n.get('kind')
        if k in ('VarDecl', 'ParmVarDecl') and 'id' in n:
            decls[n['id']] = loc_of(n.get('loc'))
            rg = n.get('range') or {}
            ranges[n['id']] = (loc_of(rg.get('begin')), loc_of(rg.get('end')))
            if 'previousDecl' in n:
                prev[n['id']] = n['previousDecl']
        elif k == 'DeclRefExpr':
            nseen += 1
            rd = n.get('referencedDecl') or {}
            if rd.get('kind') in ('VarDecl', 'ParmVarDecl'):
                refs.append((loc_of((n.get('range') or {}).get('begin')), rd.get('name'), rd.get('id')))
        for v in n.values():
            if isinstance(v, (dict, list)):
                stack.append(v)
    # redeclaration groups
    def root_of(i):
        seen = set()
        while i in prev and i not in seen:
            seen.add(i)
            i = prev[i]
        return i
    groups = {}
    granges = {}
    for i, l in decls.items():
        if l is not None and not l.macro and l.file == mainfile:
            groups.setdefault(root_of(i), set()).add((l.line, l.col))
            b, e = ranges.get(i, (None, None))
            if b is not None and e is not None and not b.macro and not e.macro:
                granges.setdefault(root_of(i), []).append(((b.line, b.col), (e.line, e.col)))
    out = []
    for use, name, did in refs:
        if use is None or use.macro or use.file != mainfile or did not in decls:
            continue
        acc = groups.get(root_of(did))
        if not acc:
            continue
        out.append((use, name, frozenset(acc), granges.get(root_of(did), [])))
    return out, nseen


# -------------------------------------------------------------------------------- cases
class Case:
    def __init__(self, name, text, lang, std, origin, mode):
        self.name, self.text, self.lang, self.std, self.origin, self.mode = name, text, lang, std, origin, mode
        self.fname = 't.c' if lang == 'c' else 't.cpp'
        self.record = None


def make_cases(ctx):
    from ..gen import progen
    n = ctx.n(40, 4000)
    samples = [s for s in mutate.sample_files()]
    cases = []
    for k in range(n):
        rng = ctx.subrng('case', k)
        r = rng.random()
        lang = rng.choice(['c', 'cpp'])
        if r < 0.35:
            p = progen.gen(rng, lang, size=rng.choice([0.3, 0.5, 0.8]), profile=rng.choice(['full', 'calibrated']))
            text, origin, name = p.plain, 'progen', 'progen'
        elif r < 0.9:
            p = featgen.gen(rng, lang, nostd=True)
            text, origin, name = p.text, 'featgen', 'featgen:' + '+'.join(p.features)
        else:
            s = rng.choice(samples)
            text, origin, name, lang = s.data.decode('utf-8', 'replace'), 'samples', s.name, ('c' if s.lang == 'c' else 'cpp')
        std = None
        if rng.random() < 0.6:
            std = rng.choice(['c99', 'c11', 'c17'] if lang == 'c' else ['c++11', 'c++14', 'c++17', 'c++20', 'c++20'])
        mode = 'quiet' if rng.random() < 0.65 else 'plain'
        cases.append(Case(name, text, lang, std, origin, mode))
    return cases


def known_cases():
    """known/C35/<name>/{t.c|t.cpp, clang-output.txt, meta.json} — replayed through VERIF_CLANG_REPLAY"""
    out = []
    if not os.path.isdir(KNOWN_DIR):
        return out
    for d in sorted(os.listdir(KNOWN_DIR)):
        p = os.path.join(KNOWN_DIR, d)
        if not os.path.isfile(os.path.join(p, 'meta.json')):
            continue
        meta = json.load(open(os.path.join(p, 'meta.json')))
        c = Case('known/C35/' + d, open(os.path.join(p, meta['file'])).read(), meta['lang'], meta.get('std'), 'known', 'replay')
        c.record = os.path.join(p, 'clang-output.txt')
        c.fname = meta['file']
        out.append(c)
    return out


def clang_flags(case):
    f = ['-x', 'c' if case.lang == 'c' else 'c++']
    if case.std:
        f.append('-std=' + case.std)
    return f


def one(ctx, case):
    d = ctx.tmpdir()
    try:
        src = os.path.join(d, case.fname)
        with open(src, 'w') as f:
            f.write(case.text)
        digest = sha1(case.text, case.lang, case.std or '')
        ctx.count('programs', case.origin)
        if case.mode != 'replay':
            cl = run_cmd([CLANG, '-fsyntax-only', '-w'] + clang_flags(case) + [case.fname], cwd=d, env=base_env(), timeout=300)
            if cl.rc != 0:
                ctx.count('outcome', 'clang-rejects')
                return
        rec = os.path.join(d, 'clang-output.txt')
        env = {'VERIF_CLANG_EXE': CLANG}
        if case.mode == 'replay':
            env['VERIF_CLANG_REPLAY'] = case.record
        else:
            env['VERIF_CLANG_RECORD'] = rec
            if case.mode == 'quiet':
                env['VERIF_CLANG_EXTRA'] = '-w'
        args = ['-q', '--clang=' + WRAP, '--dump', '--template=' + TEMPLATE] + (['--std=' + case.std] if case.std else []) + [case.fname]
        res = run_cmd(['prlimit', '--cpu=%d' % CPU, build.binary('asan')] + args, cwd=d, env=base_env(env), timeout=WALL)
        ctx.ev()
        ctx.count('mode', case.mode)
        files = {case.fname: case.text}
        if os.path.exists(rec):
            files['clang-output.txt'] = '@' + rec
        elif case.record:
            files['clang-output.txt'] = '@' + case.record
        cmd = ('cd <replay dir> && VERIF_CLANG_REPLAY=$PWD/clang-output.txt %s   # replays what clang printed; '
               'original run: mode %s' % (' '.join(res.argv[2:]), case.mode))
        if res.timed_out or res.rc in (-24, 152):
            r2 = run_cmd(['prlimit', '--cpu=30', build.binary('mon')] + args, cwd=d,
                         env=base_env(dict(env, VERIF_CLANG_REPLAY=rec) if os.path.exists(rec) else env), timeout=WALL)
            if r2.rc in (-24, 152):
                ctx.violation('hang:%s' % digest, 'clang import does not terminate (%d CPU-s ASan, 30 CPU-s optimised build) on %s'
                              % (CPU, case.name), files=files, cmd=cmd)
            else:
                ctx.inconclusive('clang import of %s overran its budget on the ASan build only' % case.name)
            return
        crash = sanreport.classify(res)
        if crash is not None:
            ctx.count('outcome', 'crash')
            key = crash.key(digest)
            ctx.violation(key, '%s during --clang import (%s mode) of %s: %s\n%s' % (
                crash.kind + (' [' + crash.detail + ']' if crash.detail else ''), case.mode, case.name,
                ' <- '.join(crash.frames[:4]), crash.excerpt[:2500]), files=files, cmd=cmd)
            return
        err = res.etext()
        ids = re.findall(r'^F:[^\n]*?:\d+:(\w+):(.*)$', err, re.M)
        bad = [(i, m) for i, m in ids if i in ERR_IDS]
        if 'Failed to execute' in err:
            ctx.count('outcome', 'clang-run-failed')
            return
        if res.rc != 0:
            ctx.count('outcome', 'exit-%s' % res.rc)
            ctx.violation('exit:%s:%s' % (res.rc, digest), 'exit status %s from --clang import of %s\n%s' % (res.rc, case.name, err[-1200:]),
                          files=files, cmd=cmd)
            return
        if bad:
            ctx.count('outcome', 'internal-error-reported')
            for i, m in bad[:1]:
                m = re.sub(r'0x[0-9a-f]+', '0x', m)
                m = re.sub(r"'[^']*'", "'..'", m)
                ctx.count('internal_errors(%s)' % case.mode, ('%s: %s' % (i, m.split('failed:')[-1].strip()))[:90])
            if case.mode != 'replay':
                ctx.trivial_or('err:' + digest)
            return
        dumpf = src + '.dump'
        if not os.path.exists(dumpf):
            ctx.count('outcome', 'no-dump')
            ctx.violation('prog:%s:no-dump' % digest, 'import completed without error but no dump was written (%s)' % case.name,
                          files=files, cmd=cmd)
            return
        if case.mode != 'quiet':
            ctx.count('outcome', 'imported(plain, crash gate only)')
            ctx.trivial_or('plain:' + digest)
            return
        ctx.count('outcome', 'imported(quiet)')
        # (2) C14 invariants + addon graph
        r = run_cmd([sys.executable or '/usr/bin/python3', DUMPCMP, build.REPO, dumpf], cwd=d, env=base_env(), timeout=600)
        try:
            out = json.loads(r.out.decode().splitlines()[-1])
        except Exception:
            ctx.inconclusive('dump comparator failed on %s: rc=%s %s' % (case.name, r.rc, r.etext()[-300:]))
            return
        if 'harness_error' in out:
            ctx.inconclusive('dump comparator error on %s: %s' % (case.name, out['harness_error'][-300:]))
            return
        seen = set()
        for inv, det, _cfg in out['violations']:
            key = 'prog:%s:dump:%s' % (digest, inv)
            if key not in seen:
                seen.add(key)
                ctx.count('dump_violations', inv)
                ctx.violation(key, 'dump of the clang import breaks invariant %s: %s (%s)' % (inv, det, case.name), files=files, cmd=cmd)
        if out['wellformed'] and out['addon_error']:
            ctx.violation('prog:%s:dump:addon-error' % digest, 'cppcheckdata.parsedump raised on the dump of the clang import: %s (%s)'
                          % (out['addon_error'], case.name), files=files, cmd=cmd)
        elif out['wellformed'] and out['mismatch']:
            ctx.violation('prog:%s:dump:addon-mismatch' % digest, 'addon object graph differs: %s' % out['mismatch'][:4], files=files, cmd=cmd)
        for k2 in ('token', 'links', 'ast_edges', 'var', 'scope'):
            ctx.count('observed', k2, out['stats'].get(k2, 0))
        ctx.count('observed', 'dumps_checked')
        # (3) variable links vs clang
        cj = run_cmd([CLANG, '-fsyntax-only', '-w', '-Xclang', '-ast-dump=json'] + clang_flags(case) + [case.fname], cwd=d,
                     env=base_env(), timeout=600)
        if cj.rc != 0:
            ctx.count('outcome', 'json-ast-failed')
            return
        try:
            ast = json.loads(cj.out)
        except ValueError:
            ctx.count('outcome', 'json-ast-unparsable')
            return
        refs, nseen = clang_refs(ast, case.fname)
        rep = vdump.check_file(dumpf)
        cfg = rep.configs[0] if rep.configs else None
        if cfg is None:
            return
        at = {}
        for t in cfg.tokens:
            at.setdefault((int(t.get('linenr', '0')), int(t.get('column', '0'))), []).append(t)
        ncmp = 0
        var2decl = {}       # cppcheck <var> id -> identity of the clang declaration (set of its locations)
        decl2pos = {}       # clang declaration -> location of the name token of the <var> cppcheck linked
        for use, name, acc, rngs in refs:
            toks = [t for t in at.get((use.line, use.col), []) if t.get('str') == name]
            if not toks:
                ctx.count('declrefs', 'no-token-at-location')
                continue
            for t in toks:
                vid = t.get('variable')
                if vid is None:
                    ctx.count('declrefs', 'token-without-variable-link')
                    continue
                v = cfg.ids['var'].get(vid)
                nt = cfg.ids['token'].get(v.get('nameToken')) if v is not None else None
                if nt is None:
                    ctx.count('declrefs', 'variable-without-name-token')
                    continue
                ncmp += 1
                got = (int(nt.get('linenr', '0')), int(nt.get('column', '0')))
                why = None
                if nt.get('str') != name:
                    why = 'the linked variable is named "%s"' % nt.get('str')
                elif rngs and not any(b <= got <= e for b, e in rngs):
                    why = 'the linked variable is declared at %d:%d, outside the declaration clang resolved (%s)' % (
                        got[0], got[1], ', '.join('%d:%d-%d:%d' % (b + e) for b, e in rngs))
                elif var2decl.setdefault(vid, acc) != acc:
                    why = ('the same <var> (declared at %d:%d) is also linked from a use of the different declaration at %s'
                           % (got[0], got[1], sorted(var2decl[vid])))
                elif decl2pos.setdefault(acc, got) != got:
                    why = ('other uses of this declaration are linked to a variable declared at %d:%d, this one to %d:%d'
                           % (decl2pos[acc] + got))
                if why is None:
                    ctx.count('declrefs', 'agree')
                else:
                    ctx.count('declrefs', 'DISAGREE')
                    ctx.violation('prog:%s:%d:%d' % (digest, use.line, use.col),
                                  'token "%s" at %d:%d: clang resolves the DeclRefExpr there to the declaration at %s; %s (%s)'
                                  % (name, use.line, use.col, sorted(acc), why, case.name), files=files, cmd=cmd)
        ctx.count('observed', 'declrefs_in_json_ast', nseen)
        if ncmp >= 5 and not out['violations']:
            ctx.trivial_or('quiet:' + digest)
        if len(ctx.samples) < 5:
            ctx.sample({'program': case.name, 'lang': case.lang, 'std': case.std, 'tokens': out['stats'].get('token'),
                        'declrefs_compared': ncmp})
    finally:
        shutil.rmtree(d, ignore_errors=True)


def run(ctx):
    ctx.rule = ('case = one --clang import of a clang-accepted program by the ASan build (clang output recorded); non-trivial = '
                'quiet mode: import without internal error, dump checked by the invariant checker and the addon library, and '
                '>= 5 DeclRefExpr variable links compared with clang\'s resolution; plain mode / imports ending in a reported '
                'internal error count as crash-gate observations only')
    ctx.assumptions.append('clang-14 JSON AST locations are decoded by replaying the writer\'s "last file/line" state; uses and '
                           'declarations inside macro expansions or other files are skipped')
    cases = known_cases() + make_cases(ctx)
    pmap(lambda c: one(ctx, c), cases, workers=8)
    if not ctx.cov.get('declrefs', {}).get('agree'):
        ctx.inconclusive('no variable link was compared with clang')
