"""C32 — Compilation-database import reproduces the compiler's options.

Differential run monitor with the compiler itself as oracle: for every entry of a generated
compile_commands.json (gen/cdbgen.py) the entry's own command is executed by sh/gcc in the entry's
directory with `-E -P` appended; `cppcheck --project=compile_commands.json -E` must produce the same
preprocessing-token sequence for that file (same defines, undefines, include resolution, language
standard).  In addition the `-v` lines `Defines:/Undefines:/Includes:` must contain nothing the
entry did not specify.  Entries gcc rejects are only checked for "no crash".
"""
import os
import re
import shutil

from .. import cases
from ..core import sha1, VERIF
from ..run import pmap, run as run_cmd, base_env
from ..gen._retry import cppcheck
from ..gen import cdbgen
from ..models import pptok

PID = 'C32'
FLAVOURS = ['mon']
META = {
    'technique': 'differential run monitor: gcc -E run with each entry\'s own command (shell-split by sh) vs '
                 'cppcheck --project=compile_commands.json -E, plus the -v Defines/Undefines/Includes lines',
    'level_text': 'Sampled exploration: cdbgen databases (arguments and command form, -I/-D/-U/-std/-isystem joined and '
                  'separated, shell quoting and escapes, repeated files, relative/absolute directory/file, noise '
                  'options, option-like paths); each source prints a known macro set, the standard macros and '
                  'includes uniquely marked headers present in several candidate directories.',
    'level_note': 'The compiler is gcc/g++ 12 run exactly as the entry says (+ -E -P); the language standard is observed '
                  'through __STDC_VERSION__/__cplusplus and only compared when the entry has -std=; predefined '
                  'macros other than the probed names are not compared.',
    'design_ref': 'DESIGN.md §3 C32',
}

KNOWN_DIR = os.path.join(VERIF, 'known', 'C32')
_STD_STMT = ('v_STDC_VERSION', 'v_cplusplus')


def sh_split(command, cwd):
    """argv as /bin/sh splits the command string"""
    r = run_cmd(['/bin/sh', '-c', 'set -- ' + command + '\nfor a in "$@"; do printf "%s\\0" "$a"; done'],
                cwd=cwd, env=base_env(), timeout=30)
    if r.rc != 0:
        return None
    return [x.decode('utf-8', 'surrogateescape') for x in r.out.split(b'\0')[:-1]]


def drop_std(toks):
    """remove the `long v_STDC_VERSION = ... ;` / `long v_cplusplus = ... ;` statements"""
    out, i = [], 0
    while i < len(toks):
        if toks[i] == 'long' and i + 1 < len(toks) and toks[i + 1] in _STD_STMT:
            while i < len(toks) and toks[i] != ';':
                i += 1
            i += 1
            continue
        out.append(toks[i])
        i += 1
    return out


def split_blocks(toks):
    """cppcheck -E prints all files one after the other: cut at the `int vfile_begin ;` sentinel"""
    blocks, cur = [], None
    i = 0
    while i < len(toks):
        if toks[i:i + 3] == ['int', 'vfile_begin', ';']:
            if cur is not None:
                blocks.append(cur)
            cur = []
        if cur is not None:
            cur.append(toks[i])
        i += 1
    if cur is not None:
        blocks.append(cur)
    return blocks


def reference(e, root):
    """run the entry's own command through gcc -E -P -> (tokens | None, note)"""
    cwd = os.path.normpath(e.directory)
    if e.form == 'command':
        argv = sh_split(e.command, cwd)
        if argv is None:
            return None, 'sh rejects the command'
        if argv != e.argv:
            return None, 'GENERATOR-BUG: sh splits the command differently from the intended argv: %r vs %r' % (argv, e.argv)
    else:
        argv = list(e.argv)
    r = run_cmd(argv + ['-E', '-P'], cwd=cwd, env=base_env(), timeout=60)
    if r.timed_out:
        return None, 'timeout'
    if r.rc != 0:
        return None, 'gcc rejects: ' + r.etext()[-300:]
    if e.out:
        p = os.path.join(cwd, e.out)
        try:
            text = open(p, 'rb').read()
        except OSError:
            return None, 'gcc wrote no output file'
        os.unlink(p)
    else:
        text = r.out
    return pptok.lex(text, e.cpp), ''


_VRE = re.compile(r'^(Defines|Undefines|Includes):(.*)$')


def verbose_blocks(text):
    """-> list of dicts (one per analysed file, in order) from cppcheck -v output"""
    blocks = []
    for line in text.splitlines():
        if line.startswith('Checking ') and line.rstrip().endswith(' ...'):
            blocks.append({'file': line[len('Checking '):-4].strip()})
        m = _VRE.match(line)
        if m and blocks:
            blocks[-1].setdefault(m.group(1), m.group(2))
    return [b for b in blocks if 'Defines' in b]


def judge_cdb(ctx, cdb, origin, keyname=None):
    """returns number of entries compared"""
    root = cdb.root
    cdb.write()
    refs = []
    for e in cdb.entries:
        toks, note = reference(e, root)
        if note.startswith('GENERATOR-BUG'):
            raise RuntimeError(note)
        if note == 'timeout':
            ctx.inconclusive('gcc watchdog fired: %s' % origin)
        refs.append((toks, note))
    res = cppcheck(['--project=compile_commands.json', '-E'], cwd=root, timeout=120)
    resv = cppcheck(['--project=compile_commands.json', '-v', '--template={file}:{line}:{id}'], cwd=root, timeout=120)
    ctx.ev(max(1, sum(1 for t, _ in refs if t is not None)))     # one evaluation per entry gcc accepted
    if res.timed_out or resv.timed_out:
        ctx.inconclusive('cppcheck watchdog fired: %s' % origin)
        return 0
    dbtext = open(os.path.join(root, 'compile_commands.json')).read()
    dbhash = sha1(dbtext)
    for r in (res, resv):
        if cases.crashed(r):
            ctx.violation('cdb:crash:%s' % (keyname or dbhash), 'cppcheck crashed on the database (rc=%s)\n%s'
                          % (r.rc, r.etext()[-800:]), files={'case': '@' + root}, cmd=r.cmdline())
            return 0
    blocks = split_blocks(pptok.lex(res.out, True))
    # C sources must be lexed with the C punctuator set; re-lex per entry below from text is not possible, the
    # sources contain no '::' '.*' '->*' '<=>' so both sets give the same tokens
    vblocks = verbose_blocks(resv.otext())
    compared = 0
    if len(blocks) != len(cdb.entries):
        ctx.count('hist', 'E-output-block-count-differs-from-entries')
    for i, e in enumerate(cdb.entries):
        toks, note = refs[i]
        ekey = 'cdb:%s' % (keyname + ':e%d' % i if keyname else sha1(repr(e.json())))
        if toks is None:
            ctx.count('entries', 'gcc-rejects (crash-check only)')
            continue
        for ft in e.features:
            ctx.count('entry_features', ft)
        what = None
        if len(blocks) != len(cdb.entries):
            what = ('cppcheck -E printed %d file blocks for %d database entries (stderr: %s)'
                    % (len(blocks), len(cdb.entries), res.etext()[-300:]))
        else:
            a, b = toks, blocks[i]
            if e.std is None:
                a, b = drop_std(a), drop_std(b)
            if a != b:
                what = 'token sequence differs for entry %d (%s)\n%s' % (
                    i, e.file, pptok.show_diff(a, b, 'gcc     ', 'cppcheck', ctx=10))
            else:
                compared += 1
                ctx.count('entries', 'equal')
                ctx.count('hist', 'tokens_compared', len(a))
        # -v lines: nothing but what the entry specifies
        if what is None and len(vblocks) == len(cdb.entries):
            vb = vblocks[i]
            dn = [d.split('=')[0].split('(')[0].strip() for d in vb.get('Defines', '').split(';') if d.strip()]
            allowed_d = set(e.defines) | {'NDEBUG_NOISE', '_FORTIFY_SOURCE', 'HAVE_SYS', '__PIC__', '__pic__', '__PIE__', '__pie__'}
            extra = [d for d in dn if d not in allowed_d]
            un = [u.strip() for u in vb.get('Undefines', '').replace(';', ' ').split() if u.strip()]
            extra_u = [u for u in un if u not in e.undefs]
            want_i = {os.path.realpath(os.path.join(os.path.normpath(e.directory), p_)) for p_ in (e.ipaths or [])}
            got_i = [x[2:] for x in re.split(r' (?=-I)', vb.get('Includes', '').strip()) if x.startswith('-I')]
            extra_i = [x for x in got_i if os.path.realpath(os.path.join(root, x)) not in want_i]
            if extra or extra_u or (extra_i and e.ipaths is not None):
                what = ('-v shows options the entry does not specify: extra defines %r, extra undefines %r, extra '
                        'include paths %r (Defines:%s / Undefines:%s / Includes:%s)'
                        % (extra, extra_u, extra_i, vb.get('Defines'), vb.get('Undefines'), vb.get('Includes')))
            else:
                ctx.count('hist', 'verbose_blocks_checked')
        if what:
            ctx.count('entries', 'DIFFERENT')
            ctx.violation(ekey, '%s\nentry: %s\n[%s]' % (what, e.json(), origin),
                          files={'case': '@' + root},
                          cmd='cd case && cppcheck --project=compile_commands.json -E   # entry %d; reference: '
                              'cd %s && %s -E -P' % (i, e.directory, e.command or ' '.join(e.argv)))
    return compared


def _case(ctx, idx):
    rng = ctx.subrng('case', idx)
    root = ctx.tmpdir('db%d' % idx)
    cdb = cdbgen.gen(rng, root, rng.randint(3, 6))
    n = judge_cdb(ctx, cdb, 'seed=%d case=%d' % (ctx.seed, idx))
    if n >= 2:
        ctx.trivial_or(sha1(repr([e.json() for e in cdb.entries])))
    if idx < 2:
        ctx.sample({'entries': [e.json() for e in cdb.entries][:2]})
    shutil.rmtree(root, ignore_errors=True)


def run(ctx):
    ctx.rule = ('case = generated compilation database with 3-6 entries; every entry\'s own command is run by gcc -E -P '
                'and compared token by token with the matching block of cppcheck --project -E; non-trivial = >=2 '
                'entries of the database were accepted by gcc and compared equal in full')
    ctx.assumptions.append('generator exclusions in force: %s' % (
        sorted(k for k, v in cdbgen.EXCL.items() if not v[0]) or 'none'))
    replay_known(ctx)
    n = ctx.n(40, 1200)
    pmap(lambda i: _case(ctx, i), range(n), workers=6)


def replay_known(ctx):
    """witness = directory under known/C32 with a build.py-free layout: FILES + compile_commands.json.in
    ('@ROOT@' stands for the scratch directory)"""
    if not os.path.isdir(KNOWN_DIR):
        return
    for name in sorted(os.listdir(KNOWN_DIR)):
        wdir = os.path.join(KNOWN_DIR, name)
        tpl = os.path.join(wdir, 'compile_commands.json.in')
        if not os.path.exists(tpl):
            continue
        root = ctx.tmpdir('known_' + name)
        shutil.copytree(wdir, root, dirs_exist_ok=True)
        import json
        entries = json.loads(open(tpl).read().replace('@ROOT@', root))
        cdb = cdbgen.Cdb(root)
        for d in entries:
            e = cdbgen.Entry()
            e.directory, e.file = d['directory'], d['file']
            e.cpp = d['file'].endswith('.cpp')
            if 'arguments' in d:
                e.form, e.argv = 'arguments', d['arguments']
            else:
                e.form, e.command = 'command', d['command']
                e.argv = sh_split(e.command, os.path.normpath(e.directory))
            argv = e.argv or []
            if '-o' in argv:
                e.out = argv[argv.index('-o') + 1]
            e.std = next((a[5:] for a in argv if a.startswith('-std=')), None)
            e.ipaths = None
            e.defines = d.get('x-defines', [])
            e.undefs = d.get('x-undefs', [])
            e.features = set()
            cdb.entries.append(e)
        os.makedirs(os.path.join(root, 'build'), exist_ok=True)
        judge_cdb(ctx, cdb, 'known witness ' + name, keyname=name)
        ctx.count('known_witness_replay', name)
        shutil.rmtree(root, ignore_errors=True)
