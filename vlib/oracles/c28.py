"""C28 — Every built-in finding id is discoverable through --errorlist.

Monitor: a ledger of every finding id observed while driving an id-hunting workload (samples, cli test
inputs, cfg tests, generated projects and programs, mutated inputs, option sweeps incl.
--check-library) is compared with the ids printed by `cppcheck --errorlist` of the same build.
"""
import glob
import os
import re
import shutil

from .. import cases
from ..build import REPO
from ..core import sha1
from ..gen import progen, projgen
from ..run import pmap, cppcheck

PID = 'C28'
FLAVOURS = ['mon']
META = {
    'technique': 'output ledger monitor: ids of all findings observed over a diverse analysis workload vs the ids listed by '
                 '--errorlist of the same binary',
    'level_text': 'Sampled exploration: every id reported for analysed code in several thousand analyses (shipped samples, '
                  'cli/cfg test inputs, generated projects/programs, token-mutated inputs, option sweeps) must be listed by '
                  '--errorlist. Evidence: ids observed, how many analyses produced each, ids listed but never observed.',
    'level_note': 'Only ids that the workload makes cppcheck report are judged (an id never triggered is unobserved, not '
                  'verified). Out of scope per the statement: addon ids (<addon>-…), ids synthesised from library <warn> '
                  'entries, CLI-level ids (cppcheckError, unmatchedSuppression, checkersReport), --debug-warnings output.',
    'design_ref': 'DESIGN.md §3 C28',
}

CLI_IDS = {'cppcheckError', 'unmatchedSuppression', 'unmatchedPolyspaceSuppression', 'checkersReport', 'internalError',
           'premium-internalError', 'premium-invalidLicense'}
CLI_IDS.discard('internalError')


def errorlist():
    r = cppcheck(['--errorlist'])
    ids = set(re.findall(r'<error id="([^"]+)"', r.otext()))
    return ids


def library_warn_ids():
    """ids synthesised from <warn> entries of library cfg files: <function name>Called and the like"""
    ids = set()
    for f in glob.glob(os.path.join(REPO, 'cfg', '*.cfg')):
        txt = open(f, errors='replace').read()
        for m in re.finditer(r'<function name="([^"]+)">(?:(?!</function>).)*?<warn ', txt, re.S):
            for name in m.group(1).split(','):
                ids.add(name.strip().replace('::', '') + 'Called')
                ids.add(name.strip() + 'Called')
    return ids


def mutate(rng, text):
    toks = re.findall(r'[A-Za-z_][A-Za-z_0-9]*|\d+|\S', text)
    if len(toks) < 5:
        return text
    for _ in range(rng.randint(1, 4)):
        i = rng.randrange(len(toks))
        op = rng.choice(['del', 'dup', 'swap', 'ins'])
        if op == 'del':
            del toks[i]
        elif op == 'dup':
            toks.insert(i, toks[i])
        elif op == 'swap' and i + 1 < len(toks):
            toks[i], toks[i + 1] = toks[i + 1], toks[i]
        else:
            toks.insert(i, rng.choice(['(', ')', '{', '}', ';', 'template', '<', '>', '#', 'if', '::', 'MACRO', '[', ']']))
    out = ''
    for t in toks:
        out += t + ('\n' if t in ';{}' else ' ')
    return out


def run(ctx):
    listed = errorlist()
    if len(listed) < 100:
        ctx.inconclusive('--errorlist printed only %d ids' % len(listed))
        return
    libwarn = library_warn_ids()
    ledger = {}   # id -> (count, example input description, files)
    jobs = []
    rng = ctx.subrng('jobs')
    # 1. shipped samples and cli test inputs
    srcs = sorted(glob.glob(os.path.join(REPO, 'samples', '*', '*.c*')))
    for pat in ('test/cli/*/*.c', 'test/cli/*/*.cpp', 'test/cli/*/*/*.c', 'test/cli/*/*/*.cpp', 'test/cli/*.c', 'test/cli/*.cpp'):
        srcs += sorted(glob.glob(os.path.join(REPO, pat)))
    srcs = [s for s in srcs if os.path.getsize(s) < 40000 and 'fuzz-timeout' not in s]
    if ctx.quick():
        rng.shuffle(srcs)
        srcs = sorted(srcs[:260])
    for s in srcs:
        jobs.append(('file', s, ['--enable=all', '--inconclusive', '--check-library', '--library=std,posix']))
    # 1b. committed inputs aimed at rarely reported ids
    from ..build import VERIF
    corpus = sorted(glob.glob(os.path.join(VERIF, 'corpus', 'c28', '*.c')) + glob.glob(os.path.join(VERIF, 'corpus', 'c28', '*.cpp')))
    jobs.append(('corpus', tuple(corpus), ['--enable=all', '--inconclusive', '--check-library', '--library=std']))
    # 2. cfg tests (large): a few in quick, all in thorough
    cfgs = sorted(glob.glob(os.path.join(REPO, 'test', 'cfg', '*.c')) + glob.glob(os.path.join(REPO, 'test', 'cfg', '*.cpp')))
    cfgs = [c for c in cfgs if os.path.getsize(c) < (60000 if ctx.quick() else 10 ** 7)]
    if ctx.quick():
        cfgs = cfgs[:6]
    for c in cfgs:
        lib = os.path.basename(c).split('.')[0]
        libs = 'std,' + lib if os.path.exists(os.path.join(REPO, 'cfg', lib + '.cfg')) and lib != 'std' else 'std'
        jobs.append(('file', c, ['--enable=all', '--inconclusive', '--library=' + libs, '--check-level=exhaustive']))
    # 3. generated projects (multi-file, whole program ids) and programs
    for i in range(ctx.n(40, 1500)):
        jobs.append(('proj', i, ['--enable=all', '--inconclusive'] + (['--check-library'] if i % 2 else [])))
    for i in range(ctx.n(40, 1500)):
        jobs.append(('prog', i, ['--enable=all', '--inconclusive', '--check-level=exhaustive'] if i % 2 else ['--enable=all']))
    # 4. token-mutated inputs (syntax-level ids)
    for i in range(ctx.n(150, 6000)):
        jobs.append(('mut', i, ['--enable=all', '--inconclusive'] + (['--force'] if i % 3 == 0 else [])))

    def work(job):
        kind, what, opts = job
        d = ctx.tmpdir('j%s_%s' % (kind, sha1(str(what))))
        try:
            if kind == 'file':
                files = {os.path.basename(what): open(what, errors='replace').read()}
                desc = os.path.relpath(what, REPO)
                args = [what]
                cwd = d
            elif kind == 'corpus':
                files = {os.path.basename(f): open(f).read() for f in what}
                desc = 'corpus/c28'
                args = list(what)
                cwd = d
            elif kind == 'proj':
                r = ctx.subrng('proj', what)
                p = projgen.gen(r, nfiles=(2, 5))
                p.write(d)
                files = p.files
                desc = 'projgen case %d' % what
                args = p.sources
                cwd = d
            elif kind == 'prog':
                r = ctx.subrng('prog', what)
                lang = 'c' if what % 3 else 'cpp'
                p = progen.gen(r, lang=lang, profile='full')
                name = 'p.c' if lang == 'c' else 'p.cpp'
                files = {name: p.plain}
                cases.write(os.path.join(d, name), p.plain)
                desc = 'progen case %d' % what
                args = [name]
                cwd = d
            else:
                r = ctx.subrng('mut', what)
                base = r.choice(srcs)
                txt = mutate(r, open(base, errors='replace').read()[:6000])
                name = 'm' + os.path.splitext(base)[1]
                files = {name: txt}
                cases.write(os.path.join(d, name), txt)
                desc = 'mutant %d of %s' % (what, os.path.relpath(base, REPO))
                args = [name]
                cwd = d
            a = cases.analyse(cwd, ['-q'] + opts + args, timeout=180)
            ctx.ev()
            if a.res.timed_out or not a.xml_ok:
                return
            for f in a.findings:
                with ctx.lock:
                    e = ledger.get(f.id)
                    if e is None:
                        ledger[f.id] = [1, desc, files if len(str(files)) < 200000 else {}, ' '.join(opts)]
                    else:
                        e[0] += 1
        finally:
            shutil.rmtree(d, ignore_errors=True)
    pmap(work, jobs, workers=16)
    judged = 0
    for fid, (n, desc, files, opts) in sorted(ledger.items()):
        if '-' in fid or fid in CLI_IDS or fid in libwarn or fid.endswith('Called'):
            ctx.count('out_of_scope_ids', fid, n)
            continue
        judged += 1
        ctx.count('ids_observed', fid, n)
        ctx.trivial_or(fid)
        if fid not in listed:
            ctx.violation('errorlist-missing:id=%s' % fid,
                          'finding id %s was reported (%d times, first for %s with options %s) but is not listed by --errorlist'
                          % (fid, n, desc, opts), files={'input/' + k: v for k, v in files.items()},
                          cmd='cppcheck -q %s <input files>; cppcheck --errorlist | grep %s' % (opts, fid))
    ctx.cov['errorlist_ids'] = len(listed)
    ctx.cov['listed_but_never_observed'] = len(listed - set(ledger))
    ctx.sample({'observed_ids': judged, 'listed_ids': len(listed), 'analyses': ctx.evaluations})
    ctx.rule = ('case = one analysis (shipped sample / cli test input / cfg test / generated project / generated program / '
                'token mutant) under an option set; non-trivial unit = one distinct in-scope finding id actually observed '
                'and looked up in --errorlist')
