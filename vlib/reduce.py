"""Line-based reducer for progen witnesses (plain and instrumented texts are line-aligned)."""
import copy


def _blocks(lines):
    """yield (start, end) inclusive line ranges that can be removed together:
    single simple lines, and brace blocks 'xxx {' ... '}'"""
    n = len(lines)
    for i in range(n):
        s = lines[i].rstrip()
        if s.endswith('{') and not s.lstrip().startswith('}'):
            depth = 0
            for j in range(i, n):
                depth += lines[j].count('{') - lines[j].count('}')
                if depth == 0:
                    yield (i, j)
                    break
        elif s and not s.lstrip().startswith('}') and '{' not in s:
            yield (i, i)


def remove(prog, a, b):
    """new program without lines a..b (0-based, inclusive)"""
    q = copy.copy(prog)
    pl = prog.plain.split('\n')
    il = prog.inst.split('\n')
    k = b - a + 1
    q.plain = '\n'.join(pl[:a] + pl[b + 1:])
    q.inst = '\n'.join(il[:a] + il[b + 1:])
    q.probes = {}
    for pid, (line, col, tok, kind) in prog.probes.items():
        l0 = line - 1
        if a <= l0 <= b:
            continue
        q.probes[pid] = (line - k if l0 > b else line, col, tok, kind)
    return q


def reduce(prog, still_fails, max_tests=600, protect=lambda line: False):
    """greedy: try removing blocks (largest first), then unwrap, until no progress"""
    tests = 0
    progress = True
    while progress and tests < max_tests:
        progress = False
        lines = prog.plain.split('\n')
        cands = sorted(_blocks(lines), key=lambda r: -(r[1] - r[0]))
        for a, b in cands:
            if tests >= max_tests:
                break
            if any(protect(l) for l in lines[a:b + 1]):
                continue
            q = remove(prog, a, b)
            tests += 1
            if still_fails(q):
                prog = q
                progress = True
                break
        if progress:
            continue
        # unwrap: remove a block header line and its closing brace only
        for a, b in cands:
            if tests >= max_tests:
                break
            if b > a and not any(protect(l) for l in (lines[a], lines[b])):
                hdr = lines[a].strip()
                if hdr.startswith(('static ', 'int main', 'switch', 'case ', 'default', 'do ', 'struct')):
                    continue
                q = remove(remove(prog, b, b), a, a)
                tests += 1
                if still_fails(q):
                    prog = q
                    progress = True
                    break
    return prog, tests
