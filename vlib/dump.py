"""Strict, independent checker of cppcheck `--dump` files (C14; also used by C35).

Independent of /repo/addons/cppcheckdata.py: the file is parsed with the stdlib XML parser and every
reference attribute is resolved by hand, per `<dump>` (= per configuration), into the id table of the
*kind* of element the writer (Tokenizer::dump, SymbolDatabase::printXml, Token::printValueFlow) says
it points to.

    rep = check_bytes(data)             # -> Report
    rep.wellformed, rep.xml_error
    rep.configs[i].violations           # [(invariant, detail)]
    rep.configs[i].graph()              # edge list, comparable with harness/dumpcmp.py's addon graph

Invariants (names are what ends up in the violation key `dump:<invariant>:<sha1 of input>`):
  xml-wellformed                   the file is one well-formed XML document with root <dumps>
  dup-id:<kind>                    two elements of a kind carry the same id inside one configuration
  ref:<element>.<attr>             a reference attribute does not resolve to an element of the right
                                   kind in the same configuration ("0" = null is accepted)
  link-asymmetric / link-self      link(link(t)) != t / link(t) == t
  link-kind                        linked tokens are not an opening/closing pair of one bracket kind
  link-order                       the opening bracket does not precede the closing one
  link-nesting:<kind>              two linked pairs of one bracket kind cross
  link-nesting-mixed               pairs of ( [ { cross each other
  ast-parent                       astParent(x)=p but x is not an operand of p, or x is an operand
                                   of p but astParent(x) != p
  ast-two-parents                  a token is an operand of two parents / both operands of one
  ast-self / ast-cycle             operand edge to itself / cycle in the parent chain
  values-missing / values-orphan   token values id without <values> element / <values> nobody uses
  values-empty                     a <values> element without <value> children
  scope-body                       bodyStart/bodyEnd of a scope are not a linked { } pair
"""
import xml.etree.ElementTree as ET

NULL_IDS = {None, '0'}

OPEN = {'(': ')', '[': ']', '{': '}', '<': '>'}
CLOSE = {v: k for k, v in OPEN.items()}

# reference attributes: element kind -> {attr: target kind}
TOKEN_REFS = {
    'scope': 'scope', 'link': 'token', 'variable': 'var', 'function': 'function', 'values': 'values',
    'type-scope': 'scope', 'astParent': 'token', 'astOperand1': 'token', 'astOperand2': 'token',
    'valueType-typeScope': 'scope', 'valueType-containerId': 'container',
}
SCOPE_REFS = {'bodyStart': 'token', 'bodyEnd': 'token', 'nestedIn': 'scope', 'function': 'function',
              'definedType': 'type'}
FUNCTION_REFS = {'token': 'token', 'tokenDef': 'token', 'overriddenFunction': 'function'}
VAR_REFS = {'nameToken': 'token', 'typeStartToken': 'token', 'typeEndToken': 'token', 'scope': 'scope'}
VALUE_REFS = {'tokvalue': 'token', 'lifetime': 'token', 'symbolic': 'token'}
TYPE_REFS = {'classScope': 'scope'}
DERIVED_REFS = {'type': 'type', 'nameTok': 'token'}


class Config:
    def __init__(self, el, index):
        self.el = el
        self.index = index
        self.cfg = el.get('cfg', '')
        self.violations = []
        self.tokens = []        # elements in order
        self.ids = {k: {} for k in ('token', 'scope', 'function', 'var', 'values', 'type', 'container')}
        self.tokidx = {}
        self.counts = {}

    def bad(self, inv, detail):
        if len(self.violations) < 50:
            self.violations.append((inv, detail))

    # ---------------------------------------------------------------- tables
    def _add(self, kind, el):
        i = el.get('id')
        if i is None or i in NULL_IDS:
            self.bad('ref:%s.id' % kind, 'element <%s> without a usable id (%r)' % (el.tag, i))
            return
        if i in self.ids[kind]:
            self.bad('dup-id:' + kind, 'id %s used by two <%s> elements' % (i, el.tag))
            return
        self.ids[kind][i] = el

    def build(self):
        d = self.el
        tl = d.find('tokenlist')
        if tl is not None:
            for n, t in enumerate(tl.findall('token')):
                self.tokens.append(t)
                self._add('token', t)
                self.tokidx.setdefault(t.get('id'), n)
        self.scopes = []
        self.functions = []
        sc = d.find('scopes')
        if sc is not None:
            for s in sc.findall('scope'):
                self.scopes.append(s)
                self._add('scope', s)
                fl = s.find('functionList')
                if fl is not None:
                    for f in fl.findall('function'):
                        self.functions.append((f, s))
                        self._add('function', f)
        self.types = []
        ty = d.find('types')
        if ty is not None:
            for t in ty.findall('type'):
                self.types.append(t)
                self._add('type', t)
        self.vars = []
        vs = d.find('variables')
        if vs is not None:
            for v in vs.findall('var'):
                self.vars.append(v)
                self._add('var', v)
        self.valuelists = []
        vf = d.find('valueflow')
        if vf is not None:
            for v in vf.findall('values'):
                self.valuelists.append(v)
                self._add('values', v)
        co = d.find('containers')
        if co is not None:
            for c in co.findall('container'):
                self._add('container', c)
        self.counts = {k: len(v) for k, v in self.ids.items()}

    # ---------------------------------------------------------------- references
    def resolve(self, el, attr, kind, where):
        v = el.get(attr)
        if v is None or v in NULL_IDS:
            return None
        tgt = self.ids[kind].get(v)
        if tgt is None:
            other = [k for k in self.ids if v in self.ids[k]]
            self.bad('ref:%s.%s' % (where, attr),
                     '%s %s: %s="%s" does not resolve to a <%s> of configuration "%s"%s' % (
                         where, self.describe(el), attr, v, kind, self.cfg,
                         (' (it is the id of a %s)' % other[0]) if other else ''))
        return tgt

    @staticmethod
    def describe(el):
        if el.tag == 'token':
            return '"%s"@%s:%s' % (el.get('str'), el.get('linenr'), el.get('column'))
        return el.get('id') or el.tag

    def check_refs(self):
        for t in self.tokens:
            for a, k in TOKEN_REFS.items():
                if a in t.attrib:
                    self.resolve(t, a, k, 'token')
        for s in self.scopes:
            for a, k in SCOPE_REFS.items():
                if a in s.attrib:
                    self.resolve(s, a, k, 'scope')
            vl = s.find('varlist')
            if vl is not None:
                for v in vl.findall('var'):
                    self.resolve(v, 'id', 'var', 'scope.varlist')
        for f, _s in self.functions:
            for a, k in FUNCTION_REFS.items():
                if a in f.attrib:
                    self.resolve(f, a, k, 'function')
            for arg in f.findall('arg'):
                self.resolve(arg, 'variable', 'var', 'function.arg')
        for v in self.vars:
            for a, k in VAR_REFS.items():
                if a in v.attrib:
                    self.resolve(v, a, k, 'var')
        for t in self.types:
            for a, k in TYPE_REFS.items():
                if a in t.attrib:
                    self.resolve(t, a, k, 'type')
            for b in t.findall('derivedFrom'):
                for a, k in DERIVED_REFS.items():
                    if a in b.attrib:
                        self.resolve(b, a, k, 'type.derivedFrom')
        for vs in self.valuelists:
            vals = vs.findall('value')
            if not vals:
                self.bad('values-empty', '<values id="%s"> has no <value>' % vs.get('id'))
            for v in vals:
                for a, k in VALUE_REFS.items():
                    if a in v.attrib:
                        self.resolve(v, a, k, 'value')

    # ---------------------------------------------------------------- links
    def check_links(self):
        tok = self.ids['token']
        pairs = []
        for n, t in enumerate(self.tokens):
            l = t.get('link')
            if l is None:
                continue
            o = tok.get(l)
            if o is None:
                continue        # reported by check_refs
            if o is t:
                self.bad('link-self', 'token %s links to itself' % self.describe(t))
                continue
            if o.get('link') != t.get('id'):
                self.bad('link-asymmetric', 'token %s links to %s whose link is %r' % (
                    self.describe(t), self.describe(o), o.get('link')))
                continue
            s = t.get('str')
            if s in OPEN:
                if o.get('str') != OPEN[s]:
                    self.bad('link-kind', 'token %s is linked with %s' % (self.describe(t), self.describe(o)))
                    continue
                m = self.tokidx.get(o.get('id'))
                if m is None or m <= n:
                    self.bad('link-order', 'closing %s precedes opening %s' % (self.describe(o), self.describe(t)))
                    continue
                pairs.append((n, m, s))
            elif s in CLOSE:
                if o.get('str') != CLOSE[s]:
                    self.bad('link-kind', 'token %s is linked with %s' % (self.describe(t), self.describe(o)))
            else:
                self.bad('link-kind', 'non-bracket token %s carries a link' % self.describe(t))
        self.npairs = len(pairs)
        # nesting: per kind, and ( [ { together
        for kinds, name in ((('(',), 'link-nesting:()'), (('[',), 'link-nesting:[]'), (('{',), 'link-nesting:{}'),
                            (('<',), 'link-nesting:<>'), (('(', '[', '{'), 'link-nesting-mixed')):
            stack = []
            for a, b, s in pairs:       # pairs are sorted by opening index
                if s not in kinds:
                    continue
                while stack and stack[-1][1] < a:
                    stack.pop()
                if stack and stack[-1][1] < b:
                    self.bad(name, 'pair %s..%s crosses pair %s..%s' % (
                        self.describe(self.tokens[stack[-1][0]]), self.describe(self.tokens[stack[-1][1]]),
                        self.describe(self.tokens[a]), self.describe(self.tokens[b])))
                    break
                stack.append((a, b))

    # ---------------------------------------------------------------- AST
    def check_ast(self):
        tok = self.ids['token']
        parent_of = {}      # child id -> parent id according to operand edges
        self.nast = 0
        for t in self.tokens:
            tid = t.get('id')
            ops = []
            for a in ('astOperand1', 'astOperand2'):
                c = t.get(a)
                if c is None or c in NULL_IDS or c not in tok:
                    continue
                self.nast += 1
                if c == tid:
                    self.bad('ast-self', 'token %s is its own %s' % (self.describe(t), a))
                    continue
                ops.append(c)
                if c in parent_of:
                    self.bad('ast-two-parents', 'token %s is an operand of %s and of %s' % (
                        self.describe(tok[c]), self.describe(tok[parent_of[c]]), self.describe(t)))
                else:
                    parent_of[c] = tid
                if tok[c].get('astParent') != tid:
                    self.bad('ast-parent', 'token %s is %s of %s but its astParent is %r' % (
                        self.describe(tok[c]), a, self.describe(t), tok[c].get('astParent')))
        for t in self.tokens:
            p = t.get('astParent')
            if p is None or p in NULL_IDS or p not in tok:
                continue
            if parent_of.get(t.get('id')) != p:
                self.bad('ast-parent', 'astParent of %s is %s, which does not have it as an operand' % (
                    self.describe(t), self.describe(tok[p])))
        # cycles in the parent chain
        state = {}
        for t in self.tokens:
            i = t.get('id')
            path = []
            while i is not None and i in tok and i not in state:
                state[i] = 1
                path.append(i)
                i = tok[i].get('astParent')
                if i in NULL_IDS:
                    i = None
            if i is not None and state.get(i) == 1 and i in path:
                self.bad('ast-cycle', 'astParent chain through %s is cyclic' % self.describe(tok[i]))
            for j in path:
                state[j] = 2

    # ---------------------------------------------------------------- values / scopes
    def check_values(self):
        used = {}
        for t in self.tokens:
            v = t.get('values')
            if v is None:
                continue
            if v in used:
                self.bad('dup-id:values', 'values id %s used by tokens %s and %s' % (
                    v, self.describe(used[v]), self.describe(t)))
            used[v] = t
            if v not in self.ids['values']:
                self.bad('values-missing', 'token %s: values="%s" has no <values> element' % (self.describe(t), v))
        for v in self.ids['values']:
            if v not in used:
                self.bad('values-orphan', '<values id="%s"> is referenced by no token' % v)

    def check_scopes(self):
        tok = self.ids['token']
        for s in self.scopes:
            a, b = s.get('bodyStart'), s.get('bodyEnd')
            if a in NULL_IDS or b in NULL_IDS or a not in tok or b not in tok:
                continue
            if tok[a].get('link') != b or tok[a].get('str') != '{' or tok[b].get('str') != '}':
                self.bad('scope-body', 'scope %s (%s %s): bodyStart %s / bodyEnd %s are not a linked {} pair' % (
                    s.get('id'), s.get('type'), s.get('className'), self.describe(tok[a]), self.describe(tok[b])))
        # nestedIn must be acyclic
        sid = self.ids['scope']
        for s in self.scopes:
            seen = set()
            i = s.get('id')
            while i is not None and i not in NULL_IDS and i in sid:
                if i in seen:
                    self.bad('scope-cycle', 'nestedIn chain of scope %s is cyclic' % s.get('id'))
                    break
                seen.add(i)
                i = sid[i].get('nestedIn')

    def check(self):
        self.build()
        self.check_refs()
        self.check_links()
        self.check_ast()
        self.check_values()
        self.check_scopes()
        return self

    # ---------------------------------------------------------------- graph (for the second monitor)
    def graph(self):
        """Edge list of what this checker resolved: sorted list of tuples
        (source kind, source id, edge name, target kind or None, target id or None)."""
        g = []

        def edge(sk, sid, name, el, attr, kind):
            v = el.get(attr)
            if v is None or v in NULL_IDS or v not in self.ids[kind]:
                g.append((sk, sid, name, None, None))
            else:
                g.append((sk, sid, name, kind, v))

        for t in self.tokens:
            i = t.get('id')
            for attr, name, kind in (('scope', 'scope', 'scope'), ('link', 'link', 'token'),
                                     ('variable', 'variable', 'var'), ('function', 'function', 'function'),
                                     ('type-scope', 'typeScope', 'scope'), ('astParent', 'astParent', 'token'),
                                     ('astOperand1', 'astOperand1', 'token'), ('astOperand2', 'astOperand2', 'token')):
                edge('token', i, name, t, attr, kind)
            if t.get('valueType-type'):
                edge('token', i, 'valueType.typeScope', t, 'valueType-typeScope', 'scope')
            vs = self.ids['values'].get(t.get('values')) if t.get('values') else None
            n = 0
            if vs is not None:
                tk = self.ids['token']
                for v in vs.findall('value'):
                    n += 1
                    iv = v.get('intvalue')
                    refs = [v.get(a) if (v.get(a) not in NULL_IDS and v.get(a) in tk) else None
                            for a in ('tokvalue', 'lifetime', 'symbolic')]
                    g.append(('token', i, 'value', None, '%s|%s|%s|%s|%s|%s' % (
                        int(iv) if iv else iv, v.get('floatvalue'),
                        'known' if v.get('known') else 'possible' if v.get('possible') else
                        'impossible' if v.get('impossible') else
                        'inconclusive' if v.get('inconclusive') else '', refs[0], refs[1], refs[2])))
            g.append(('token', i, 'nvalues', None, str(n)))
        for s in self.scopes:
            i = s.get('id')
            for attr, kind in (('bodyStart', 'token'), ('bodyEnd', 'token'), ('nestedIn', 'scope'),
                               ('function', 'function')):
                edge('scope', i, attr, s, attr, kind)
            vl = s.find('varlist')
            vids = [v.get('id') for v in vl.findall('var')] if vl is not None else []
            g.append(('scope', i, 'varlist', None, ','.join(v for v in vids if v in self.ids['var'])))
        for f, s in self.functions:
            i = f.get('id')
            edge('function', i, 'token', f, 'token', 'token')
            edge('function', i, 'tokenDef', f, 'tokenDef', 'token')
            g.append(('function', i, 'nestedIn', 'scope', s.get('id')))
            for arg in f.findall('arg'):
                edge('function', i, 'argument[%s]' % arg.get('nr'), arg, 'variable', 'var')
        for v in self.vars:
            i = v.get('id')
            for attr, kind in (('nameToken', 'token'), ('typeStartToken', 'token'), ('typeEndToken', 'token'),
                               ('scope', 'scope')):
                edge('var', i, attr, v, attr, kind)
        g.sort(key=lambda e: tuple('' if x is None else x for x in e))
        return g


class Report:
    def __init__(self):
        self.wellformed = False
        self.xml_error = ''
        self.configs = []
        self.root = None

    def all_violations(self):
        out = []
        if not self.wellformed:
            out.append(('xml-wellformed', self.xml_error, ''))
        for c in self.configs:
            for inv, det in c.violations:
                out.append((inv, det, c.cfg))
        return out

    def stats(self):
        s = {'configs': len(self.configs)}
        for c in self.configs:
            for k, v in c.counts.items():
                s[k] = s.get(k, 0) + v
            s['links'] = s.get('links', 0) + getattr(c, 'npairs', 0)
            s['ast_edges'] = s.get('ast_edges', 0) + getattr(c, 'nast', 0)
        return s


def check_bytes(data):
    rep = Report()
    try:
        root = ET.fromstring(data)
    except ET.ParseError as e:
        rep.xml_error = str(e)
        return rep
    if root.tag != 'dumps':
        rep.xml_error = 'root element is <%s>, not <dumps>' % root.tag
        return rep
    rep.wellformed = True
    rep.root = root
    for n, d in enumerate(root.findall('dump')):
        rep.configs.append(Config(d, n).check())
    return rep


def check_file(path):
    with open(path, 'rb') as f:
        return check_bytes(f.read())


def xml_error_context(data, err, width=70):
    """text around the position named by an expat error message ('...: line L, column C')"""
    left, right = _split_at_error(data, err)
    return (left[-width * 2:] + right[:width]) if (left or right) else ''


def _split_at_error(data, err):
    import re
    m = re.search(r'line (\d+), column (\d+)', err or '')
    if not m:
        return '', ''
    lines = data.split(b'\n')
    l, c = int(m.group(1)), int(m.group(2))
    if 1 <= l <= len(lines):
        s = lines[l - 1]
        return s[:c + 1].decode('utf-8', 'replace'), s[c + 1:].decode('utf-8', 'replace')
    return '', ''


def xml_culprit(data, err):
    """'<element>.<attribute>' the parse error position falls into (the unescaped attribute)"""
    import re
    left, _right = _split_at_error(data, err)
    els = re.findall(r'<([\w-]+)[\s>]', left)
    attrs = re.findall(r'([\w-]+)="', left)
    return '%s.%s' % (els[-1] if els else '?', attrs[-1] if attrs else '?')
