"""C33 (c): generated patterns from the documented grammar, three voices.

gen_pattern(rng)        random pattern from the grammar documented in /repo/lib/token.h
build(ctx, patterns, d) patterns.cpp -> /repo/tools/matchcompiler.py -> g++ with the `mon` build's flags ->
                        linked against the `mon` build's cppcheck-core objects (+ simplecpp, tinyxml2)
run(ctx, n)             batches of patterns x token lists of small sources (real tokenizer); compares the
                        match-compiled function, the interpreter and vlib/models/matchpattern.py at every
                        token position (and at the end-of-list position)
"""
import fcntl
import glob
import json
import os
import re
import shlex
import shutil
import subprocess

from . import build
from .core import sha1
from .run import base_env, run as run_cmd
from .models import matchpattern as ref
from .gen import progen, stlgen

SRC = os.path.join(build.VERIF, 'harness', 'matchharness')
KNOWN_DIR = os.path.join(build.VERIF, 'known', 'C33')

K_MATCH, K_SIMPLE, K_FIND, K_FINDEND, K_FINDSIMPLE, K_FINDSIMPLEEND = range(6)
KIND_NAMES = ['Match', 'simpleMatch', 'findmatch', 'findmatch+end', 'findsimplematch', 'findsimplematch+end']

CMDS = ['%any%', '%assign%', '%bool%', '%char%', '%comp%', '%cop%', '%name%', '%num%', '%op%', '%or%', '%oror%',
        '%type%', '%str%', '%var%', '%varid%']
# literal tokens: text that occurs in the token sources, keywords, operators of every token type class
LITERALS = ['x', 'y', 'p', 'i', 'n', 'f', 'g', 'v', 's', 'a', 'b', 'int', 'char', 'void', 'unsigned', 'long', 'bool',
            'const', 'static', 'struct', 'class', 'return', 'if', 'else', 'for', 'while', 'do', 'switch', 'case',
            'default', 'break', 'sizeof', 'auto', 'register', 'restrict', 'inline', 'volatile', 'typedef', 'enum',
            'union', 'goto', 'continue', 'extern', 'asm', 'true', 'false', 'nullptr', 'NULL', 'std', 'vector', 'string',
            'size', 'template', 'typename', 'new', 'delete', 'this', 'operator', 'public', 'namespace', 'using',
            ';', ',', '(', ')', '{', '}', '[', ']', '<', '>', '=', '==', '!=', '<=', '>=', '+', '-', '*', '/', '%', '&', '^',
            '~', '!', '&&', '<<', '>>', '++', '--', '+=', '-=', '*=', '|=', '&=', '%=', '<<=', '->', '.', '::', ':', '?', '...',
            '0', '1', '2', '10', '0x10', '1.5', '<=>']
# documented: inside a Token::Match element a '|' always separates alternatives ("%or%"/"%oror%" name the
# operators), so literals that contain '|' are generated for simpleMatch/findsimplematch only (false alarm
# fixed: "|=" as a Match element is read as (empty alternative | "=") by the interpreter)
ALT_LITERALS = [l for l in LITERALS if '|' not in l]
SIMPLE_ONLY = ['|', '||']          # in Token::Match these are spelled %or% / %oror% (documented)
CLASS_CHARS = ';{}()[<>,=+-*/&!~?:.xyi01|^%'


def _alt(rng, allow_varid):
    if rng.random() < 0.45:
        c = rng.choice(CMDS)
        while c == '%varid%' and not allow_varid:
            c = rng.choice(CMDS)
        return c
    return rng.choice(ALT_LITERALS)


def _join_alts(rng, alts, p_optional):
    # an element that starts with "[" and contains "]" is the documented character class "[abc]": an
    # alternative list never starts with "[" when "]" is one of the alternatives (ambiguous spelling)
    if alts[0] == '[' and ']' in alts:
        alts = alts[1:] + alts[:1]
    return '|'.join(alts) + ('|' if rng.random() < p_optional else '')


def gen_element(rng, allow_varid=True):
    r = rng.random()
    if r < 0.30:
        return rng.choice(ALT_LITERALS)
    if r < 0.50:
        return _alt(rng, allow_varid) if rng.random() < 0.2 else rng.choice([c for c in CMDS if allow_varid or c != '%varid%'])
    if r < 0.80:
        k = rng.randint(2, 4)
        alts = []
        while len(alts) < k:
            a = _alt(rng, allow_varid)
            if a not in alts:
                alts.append(a)
        return _join_alts(rng, alts, 0.35)
    if r < 0.90:
        return '!!' + rng.choice(ALT_LITERALS)
    chars = ''.join(sorted(set(rng.choice(CLASS_CHARS) for _ in range(rng.randint(2, 5)))))
    if len(chars) < 2:
        chars += ';' if ';' not in chars else ','
    return '[' + chars.replace(']', '') + ']'


def _lex_windows(texts):
    """token strings of the source texts (crude lexer; the real tokenizer may simplify further)"""
    from .gen import mutate
    out = []
    for t in texts:
        t = re.sub(r'^\s*#.*$', '', t, flags=re.M)
        toks = [x for x in mutate.lex(t) if not x.isspace() and not x.startswith(('//', '/*'))]
        toks = [x for x in toks if '"' not in x and '\\' not in x and "'" not in x and '|' not in x and ' ' not in x]
        if toks:
            out.append(toks)
    return out


def _fitting_cmd(rng, tok):
    if re.match(r'[A-Za-z_]', tok):
        return rng.choice(['%name%', '%name%', '%type%', '%var%', '%any%', '%varid%', '%bool%'])
    if re.match(r'[0-9]', tok):
        return rng.choice(['%num%', '%num%', '%any%', '%name%'])
    return rng.choice(['%op%', '%cop%', '%comp%', '%assign%', '%any%', '%or%', '%oror%', '%op%'])


def gen_guided(rng, windows):
    """pattern derived from a window of consecutive source tokens, so that it has a chance to match"""
    toks = rng.choice(windows)
    k = rng.choice([1, 2, 2, 3, 3, 4])
    a = rng.randrange(max(1, len(toks) - k + 1))
    els = []
    for tok in toks[a:a + k]:
        r = rng.random()
        if r < 0.40:
            el = tok
        elif r < 0.65:
            alts = [tok if rng.random() < 0.7 else _fitting_cmd(rng, tok)]
            while len(alts) < rng.randint(2, 4):
                x = _alt(rng, True)
                if x not in alts:
                    alts.append(x)
            rng.shuffle(alts)
            el = _join_alts(rng, alts, 0.3)
        elif r < 0.90:
            el = _fitting_cmd(rng, tok)
        elif r < 0.95 or len(tok) != 1 or tok == ']':
            el = '!!' + rng.choice(ALT_LITERALS)
        else:
            chars = set(tok + ''.join(rng.choice(CLASS_CHARS) for _ in range(rng.randint(1, 3)))) - {']'}
            el = '[' + ''.join(sorted(chars)) + ']'
        els.append(el)
        if rng.random() < 0.12:
            els.append(_join_alts(rng, rng.sample(ALT_LITERALS, 2), 1.1))
    pat = ' '.join(els)
    return pat


def gen_pattern(rng, windows=None):
    """-> (kind, pattern, uses_varid)"""
    kind = rng.choice([K_MATCH] * 12 + [K_SIMPLE] * 3 + [K_FIND] * 2 + [K_FINDEND, K_FINDSIMPLE, K_FINDSIMPLEEND])
    if kind in (K_SIMPLE, K_FINDSIMPLE, K_FINDSIMPLEEND):
        if windows and rng.random() < 0.7:
            toks = rng.choice(windows)
            k = rng.randint(1, 3)
            a = rng.randrange(max(1, len(toks) - k + 1))
            return kind, ' '.join(toks[a:a + k]), False
        els = [rng.choice(LITERALS + SIMPLE_ONLY) for _ in range(rng.randint(1, 3))]
        return kind, ' '.join(els), False
    if windows and rng.random() < 0.65:
        pat = gen_guided(rng, windows)
    else:
        els = [gen_element(rng) for _ in range(rng.choice([1, 1, 2, 2, 2, 3, 3, 4]))]
        pat = ' '.join(els)
    return kind, pat, '%varid%' in pat


def patterns_cpp(patterns):
    out = ['// generated by vlib/matchharness.py -- one call per line so that tools/matchcompiler.py rewrites it',
           '#include "harness.h"', '#include "token.h"', '']
    rows = []
    for i, (kind, pat, uv) in enumerate(patterns):
        lit = '"%s"' % pat
        if kind == K_MATCH:
            call = 'Token::Match(tok, %s%s)' % (lit, ', varid' if uv else '')
        elif kind == K_SIMPLE:
            call = 'Token::simpleMatch(tok, %s)' % lit
        elif kind == K_FIND:
            call = 'Token::findmatch(tok, %s%s)' % (lit, ', varid' if uv else '')
        elif kind == K_FINDEND:
            call = 'Token::findmatch(tok, %s, end%s)' % (lit, ', varid' if uv else '')
        elif kind == K_FINDSIMPLE:
            call = 'Token::findsimplematch(tok, %s)' % lit
        else:
            call = 'Token::findsimplematch(tok, %s, end)' % lit
        if kind in (K_MATCH, K_SIMPLE):
            out.append('static bool m%d(const Token *tok, int varid) { (void)varid; return %s; }' % (i, call))
            rows.append('    {%d, %s, m%d, nullptr, %d},' % (kind, lit, i, 1 if uv else 0))
        else:
            out.append('static const Token *f%d(const Token *tok, const Token *end, int varid) { (void)varid; (void)end; return %s; }' % (i, call))
            rows.append('    {%d, %s, nullptr, f%d, %d},' % (kind, lit, i, 1 if uv else 0))
    out.append('')
    # the table is written with adjacent-literal concatenation so that the match compiler's
    # string handling never touches the pattern text of the interpreted side
    out.append('const PatternEntry g_patterns[] = {')
    out += rows
    out.append('};')
    out.append('const int g_npatterns = %d;' % len(patterns))
    return '\n'.join(out) + '\n'


# ------------------------------------------------------------------------------------ build
def mon_flags():
    """compile flags of the mon build's cppcheck-core objects (from compile_commands.json)"""
    bdir = build.builddir('mon')
    cc = os.path.join(bdir, 'compile_commands.json')
    if not os.path.exists(cc):
        raise build.HarnessError('no compile_commands.json in %s' % bdir)
    for e in json.load(open(cc)):
        if e['file'].endswith('mc_token.cpp') or e['file'].endswith('lib/token.cpp'):
            argv = shlex.split(e['command'])
            flags = []
            skip = False
            for a in argv[1:]:
                if skip:
                    skip = False
                    continue
                if a in ('-o', '-c'):
                    skip = True
                    continue
                if a.startswith('-W') or a == '-pedantic':
                    continue
                flags.append(a)
            return argv[0], flags, e['directory']
    raise build.HarnessError('no compile command for token.cpp in compile_commands.json')


def core_objects():
    bdir = build.builddir('mon')
    objs = sorted(glob.glob(os.path.join(bdir, 'lib', 'CMakeFiles', 'cppcheck-core.dir', '**', '*.o'), recursive=True))
    libs = [os.path.join(bdir, 'lib', l) for l in ('libsimplecpp.a', 'libtinyxml2.a')]
    if len(objs) < 30 or not all(os.path.exists(l) for l in libs):
        raise build.HarnessError('mon build objects not found under %s' % bdir)
    return objs, libs


def _cc(argv, cwd, what):
    p = subprocess.run(argv, cwd=cwd, stdout=subprocess.PIPE, stderr=subprocess.STDOUT)
    if p.returncode != 0:
        raise build.HarnessError('matchharness: %s failed: %s' % (what, p.stdout.decode('utf-8', 'replace')[-1500:]))


def fixed_objects():
    """main.o and interp.o, cached per (flags, newest lib header, sources)"""
    cxx, flags, cwd = mon_flags()
    hdrs = glob.glob(os.path.join(build.REPO, 'lib', '*.h'))
    stamp = sha1(' '.join(flags), str(max(os.path.getmtime(h) for h in hdrs)),
                 *[open(os.path.join(SRC, f)).read() for f in ('main.cpp', 'interp.cpp', 'harness.h')])
    out = os.path.join(build.BUILD_ROOT, 'harness', 'matchharness-' + stamp)
    objs = [os.path.join(out, 'main.o'), os.path.join(out, 'interp.o')]
    os.makedirs(out, exist_ok=True)
    with open(os.path.join(out, '.lock'), 'w') as lock:
        fcntl.flock(lock, fcntl.LOCK_EX)
        try:
            procs = []
            for src, obj in (('main.cpp', objs[0]), ('interp.cpp', objs[1])):
                if not os.path.exists(obj):
                    tmp = obj + '.%d.tmp.o' % os.getpid()
                    procs.append((subprocess.Popen([cxx] + flags + ['-I' + SRC, '-o', tmp, '-c', os.path.join(SRC, src)], cwd=cwd,
                                                   stdout=subprocess.PIPE, stderr=subprocess.STDOUT), tmp, obj))
            for p, tmp, obj in procs:
                o, _ = p.communicate()
                if p.returncode != 0:
                    raise build.HarnessError('matchharness: compiling %s failed: %s' % (obj, o.decode('utf-8', 'replace')[-1500:]))
                os.replace(tmp, obj)
        finally:
            fcntl.flock(lock, fcntl.LOCK_UN)
    return objs


def build_batch(patterns, d):
    """-> path of the harness executable for this batch of patterns"""
    cxx, flags, cwd = mon_flags()
    os.makedirs(os.path.join(d, 'in'), exist_ok=True)
    os.makedirs(os.path.join(d, 'out'), exist_ok=True)
    with open(os.path.join(d, 'in', 'patterns.cpp'), 'w') as f:
        f.write(patterns_cpp(patterns))
    p = subprocess.run(['/usr/bin/python3', os.path.join(build.REPO, 'tools', 'matchcompiler.py'), '--read-dir', os.path.join(d, 'in'),
                        '--write-dir', os.path.join(d, 'out'), '--prefix', 'mc_', 'patterns.cpp'],
                       stdout=subprocess.PIPE, stderr=subprocess.STDOUT)
    mc = os.path.join(d, 'out', 'mc_patterns.cpp')
    out = p.stdout.decode('utf-8', 'replace')
    if p.returncode != 0 or not os.path.exists(mc):
        raise build.HarnessError('matchcompiler.py failed on generated patterns: ' + out[-800:])
    text = open(mc).read()
    left = len(re.findall(r'Token::(?:Match|simpleMatch|findmatch|findsimplematch)\(', text))
    unhandled = re.findall(r'^unhandled:(.*)$', out, re.M)
    obj = os.path.join(d, 'mc_patterns.o')
    _cc([cxx] + flags + ['-I' + SRC, '-o', obj, '-c', mc], cwd, 'compiling the match-compiled patterns')
    exe = os.path.join(d, 'matchharness')
    objs, libs = core_objects()
    _cc([cxx, '-o', exe, obj] + fixed_objects() + objs + libs + ['-lpthread'], cwd, 'linking')
    return exe, left, unhandled, text


# ------------------------------------------------------------------------------------ token sources
EDGE_SOURCES = [
    ('e0.cpp', 'int f(int x, int y) {\n  int a[3] = {1, 2, 3};\n  if (x < y && x >= 0 || !y) { x += a[1] << 2; }\n'
               '  return x | y ? x ^ 1 : ~y;\n}\n'),
    ('e1.cpp', '#include <vector>\ntemplate<class T> struct S { T v; std::vector<int> w; };\n'
               'bool g(S<int> &s, const char *p) {\n  auto l = [&](int i) { return i <=> 1; };\n'
               '  s.w.push_back(1); bool b = true; char c = \'x\'; const char *q = "str";\n  wchar_t wc = L\'w\'; const wchar_t *ws = L"ws";\n'
               '  return b || !p || s.v == 0x10 || 1.5 > 2;\n}\n'),
    ('e2.c', 'struct T { int a; unsigned long b; };\nint true = 1;\nint h(struct T *t, int class, int new) {\n'
             '  int delete = class + new; int this = true;\n  t->a %= 3; t->b <<= 2; t->a++; --t->b;\n'
             '  do { delete--; } while (delete > 0);\n  return this ? t->a : (int)sizeof(struct T);\n}\n'),
    ('e3.cpp', 'int restrict = 0;\nstatic inline int k(register int r) {\n  restrict++; goto end;\n  switch (r) { case 1: break; default: continue_: ; }\n'
               'end:\n  return r % 2 ? restrict : NULL == nullptr;\n}\n'),
    ('e4.c', 'typedef unsigned int u32;\nenum E { A, B = 2 };\nextern volatile u32 reg;\nvoid m(u32 n, ...) {\n  u32 i;\n'
             '  for (i = 0; i != n; i++) reg |= i & 0xff;\n  while (reg) reg = reg >> 1;\n  asm("nop");\n}\n'),
    ('e5.cpp', 'namespace N { class C { public: C() : x(0) {} ~C() {} int operator+(const C &o) const { return x + o.x; } '
               'int x; static int s; }; }\nusing N::C;\nint C::s = 1;\nint u(C *c) { C d; delete c; int *p = new int[2]; '
               'return d + *c + p[0] + sizeof(int) + (true ? 1 : 0); }\n'),
    ('e6.cpp', ';;\n'),
    ('e7.c', 'int z;\n'),
]


def sources(rng, n_generated):
    out = list(EDGE_SOURCES)
    for i in range(n_generated):
        if i % 2 == 0:
            lang = rng.choice(['c', 'cpp'])
            text = progen.gen(rng, lang, size=0.3, profile='full').plain
            out.append(('g%d.%s' % (i, 'c' if lang == 'c' else 'cpp'), text[:2500]))
        else:
            out.append(('g%d.cpp' % i, stlgen.gen(rng, nfuncs=2)[0]))
    return out


class Tok:
    __slots__ = ('str', 'varId', 'tokType', 'flags', 'isName', 'isNumber', 'isOp', 'isConstOp', 'isAssignmentOp',
                 'isComparisonOp', 'isBoolean', 'isKeyword', 'linked')


def _unesc(s):
    if s == '%':
        return ''
    return re.sub(r'%([0-9A-F]{2})', lambda m: chr(int(m.group(1), 16)), s)


def parse_output(text):
    """-> list of (file, ok, [Tok], rows{(pidx, varid): str}, finds{(pidx, varid): [(pos, compiled, interp)]})"""
    out = []
    cur = None
    for line in text.split('\n'):
        if not line:
            continue
        tag = line[0]
        if tag == 'S':
            p = line.split(' ', 4)
            cur = {'file': p[4], 'ok': p[3] == '1', 'toks': [], 'rows': {}, 'finds': {}}
            out.append(cur)
        elif tag == 'T':
            p = line.split(' ', 5)
            t = Tok()
            t.varId, t.tokType, t.flags, t.str = int(p[2]), int(p[3]), int(p[4], 16), _unesc(p[5])
            f = t.flags
            t.isName, t.isNumber, t.isOp, t.isConstOp = bool(f & 1), bool(f & 2), bool(f & 4), bool(f & 8)
            t.isAssignmentOp, t.isComparisonOp, t.isBoolean, t.isKeyword = bool(f & 16), bool(f & 32), bool(f & 64), bool(f & 128)
            t.linked = bool(f & 256)
            cur['toks'].append(t)
        elif tag == 'R':
            p = line.split(' ')
            cur['rows'][(int(p[1]), int(p[2]))] = p[3]
        elif tag == 'F':
            p = line.split(' ')
            cur['finds'][(int(p[1]), int(p[2]))] = [tuple(x.split(':')) for x in p[3:]]
    return out


# ------------------------------------------------------------------------------------ judging
def run(ctx, npatterns, batch=None):
    rng = ctx.subrng('matchharness')
    batch = batch or (150 if ctx.quick() else 400)
    srcs = sources(rng, 6 if ctx.quick() else 16)
    d0 = ctx.tmpdir('mh')
    sdir = os.path.join(d0, 'src')
    os.makedirs(sdir)
    for name, text in srcs:
        with open(os.path.join(sdir, name), 'w') as f:
            f.write(text)
    pats = []
    seen = set()
    # witnesses of listed findings first (replayed on every run)
    wit = os.path.join(KNOWN_DIR, 'patterns.txt')
    if os.path.exists(wit):
        for line in open(wit):
            line = line.rstrip('\n')
            if line and not line.startswith('#'):
                k, pat = line.split('\t', 1)
                pats.append((KIND_NAMES.index(k), pat, '%varid%' in pat))
                seen.add((pats[-1][0], pat))
    windows = _lex_windows([t for _n, t in srcs])
    while len(pats) < npatterns:
        p = gen_pattern(rng, windows)
        if '"' in p[1] or '\\' in p[1]:
            continue
        if (p[0], p[1]) in seen:
            continue
        seen.add((p[0], p[1]))
        pats.append(p)
    positions = 0
    for b0 in range(0, len(pats), batch):
        chunk = pats[b0:b0 + batch]
        d = os.path.join(d0, 'b%d' % b0)
        os.makedirs(d)
        exe, left, unhandled, _text = build_batch(chunk, d)
        if left:
            ctx.count('harness', 'calls_not_rewritten_by_matchcompiler', left)
        for u in unhandled:
            ctx.count('harness', 'matchcompiler_unhandled:' + u.strip())
        res = run_cmd([exe] + [os.path.join(sdir, n) for n, _ in srcs], cwd=d, env=base_env(), timeout=900)
        if res.timed_out or res.rc != 0:
            ctx.inconclusive('matchharness run failed (rc=%s timed_out=%s): %s' % (res.rc, res.timed_out, res.etext()[-300:]))
            continue
        parsed = parse_output(res.otext())
        ctx.count('harness', 'batches')
        for s in parsed:
            ctx.count('harness', 'token_lists' if b0 == 0 else 'token_lists_reused', 1)
            if b0 == 0:
                ctx.count('harness', 'tokens', len(s['toks']))
                if not s['ok']:
                    ctx.count('harness', 'token_lists_with_tokenizer_error')
        judge_batch(ctx, chunk, parsed)
        shutil.rmtree(d, ignore_errors=True)
    shutil.rmtree(d0, ignore_errors=True)


def judge_batch(ctx, chunk, parsed):
    for pi, (kind, pat, uv) in enumerate(chunk):
        kname = KIND_NAMES[kind]
        seen_t = seen_f = False
        n_eval = 0
        model_checked = 0
        for s in parsed:
            toks = s['toks']
            n = len(toks)
            for (pidx, varid), row in s['rows'].items():
                if pidx != pi:
                    continue
                for pos, ch in enumerate(row):
                    code = int(ch, 16)
                    comp, interp = bool(code & 1), bool(code & 2)
                    cthrow, ithrow = bool(code & 4), bool(code & 8)
                    n_eval += 1
                    ctx.count('evaluations', kname)
                    if comp and interp:
                        seen_t = True
                    if not comp and not interp:
                        seen_f = True
                    where = 'position %d of %s (token %r, next %r; %d tokens)' % (
                        pos, os.path.basename(s['file']), toks[pos].str if pos < n else None,
                        toks[pos + 1].str if pos + 1 < n else None, n)
                    if cthrow != ithrow or comp != interp:
                        trace = ref.Trace()
                        m = ref.match(toks, pos, pat, varid, trace) if kind == K_MATCH else ref.simple_match(toks, pos, pat)
                        key, cls = disagreement_key(kind, pat, toks, pos, trace if kind == K_MATCH else None,
                                                    comp and not cthrow, interp and not ithrow)
                        ctx.count('disagreements', cls)
                        ctx.violation(key, 'Token::%s("%s"%s): match-compiled function says %s, interpreter says %s '
                                      '(documented language: %s) at %s' % (
                                          kname, pat, ', varid=%d' % varid if uv else '', 'throws' if cthrow else comp,
                                          'throws' if ithrow else interp, m, where),
                                      files={'source': '@' + s['file'], 'pattern.txt': '%s\t%s\n' % (kname, pat)},
                                      cmd='see /verif/vlib/matchharness.py: build_batch([(%d, %r, %r)], dir) and run it on the source' % (kind, pat, uv))
                        continue
                    if cthrow:
                        continue
                    # third voice: the documented language
                    if kind == K_MATCH:
                        trace = ref.Trace()
                        m = ref.match(toks, pos, pat, varid, trace)
                    else:
                        m = ref.simple_match(toks, pos, pat)
                    if m is None:
                        ctx.count('model', 'abstained')
                        continue
                    model_checked += 1
                    ctx.count('model', 'asserted')
                    if m != comp:
                        key, cls = doc_key(pat, toks, pos, trace if kind == K_MATCH else None)
                        ctx.count('disagreements', 'doc:' + cls)
                        ctx.violation(key, 'Token::%s("%s"%s): both implementations say %s, the documented pattern language '
                                      '(lib/token.h) says %s at %s' % (kname, pat, ', varid=%d' % varid if uv else '', comp, m, where),
                                      files={'source': '@' + s['file'], 'pattern.txt': '%s\t%s\n' % (kname, pat)})
            for (pidx, varid), lst in s['finds'].items():
                if pidx != pi:
                    continue
                for pos, rc, ri in lst:
                    n_eval += 1
                    ctx.count('evaluations', kname)
                    if rc == ri:
                        if rc == '-1':
                            seen_f = True
                        elif rc != 'E':
                            seen_t = True
                        continue
                    # classify at the first position where exactly one of the two reports a match
                    cands = [int(x) for x in (rc, ri) if x not in ('E', '-1')]
                    key, cls = 'pattern:' + pat, 'other'
                    if cands:
                        c0 = min(cands)
                        trace = ref.Trace()
                        if kind in (K_FIND, K_FINDEND):
                            ref.match(toks, c0, pat, varid, trace)
                        key, cls = disagreement_key(kind, pat, toks, c0, trace, rc == str(c0), ri == str(c0))
                    ctx.count('disagreements', 'find:' + cls)
                    ctx.violation(key, 'Token::%s("%s") from position %s of %s: match-compiled function returns token '
                                  '%s, interpreter returns %s' % (kname, pat, pos, os.path.basename(s['file']), rc, ri),
                                  files={'source': '@' + s['file'], 'pattern.txt': '%s\t%s\n' % (kname, pat)})
        ctx.ev()
        ctx.count('patterns', kname)
        if seen_t and seen_f:
            ctx.count('patterns', 'seen_matching_and_not_matching')
            ctx.trivial_or('c:%s:%s' % (kname, pat))
        elif seen_t:
            ctx.count('patterns', 'only_matching')
        else:
            ctx.count('patterns', 'never_matching')
        if len(ctx.samples) < 6 and seen_t and seen_f and ('|' in pat or '!!' in pat):
            ctx.sample({'generated_pattern': pat, 'kind': kname, 'positions_evaluated': n_eval,
                        'positions_asserted_against_documentation': model_checked})


# spellings that are keywords / boolean literals in C or C++ (some language mode): only these can be
# "a keyword literal that names a variable or plain name"
KEYWORD_SPELLINGS = set((
    'asm auto break case const continue default do else enum extern for goto if inline register restrict return '
    'sizeof static struct switch typedef union volatile while void true false bool char int long short signed '
    'unsigned float double class new delete this template typename namespace using public private protected '
    'virtual operator friend explicit mutable try catch throw nullptr constexpr noexcept decltype final override'
).split())


def pattern_literals(pat):
    out = set()
    for el in pat.split(' '):
        if el.startswith('!!') or (len(el) > 2 and el[0] == '[' and el[-1] == ']'):
            continue
        for a in (el.split('|') if len(el) > 1 and el != '||' else [el]):
            if a and not (len(a) > 2 and a[0] == '%' and a[-1] == '%'):
                out.add(a)
    return out


def disagreement_key(kind, pat, toks, pos, trace, comp=None, interp=None):
    """Stable key of a compiled-vs-interpreted disagreement: named by the construct involved when the
    situation can be recognised from the token list (so that the same root cause met through another
    random pattern maps to the same key), else by the pattern literal."""
    n = len(toks)
    if kind in (K_MATCH, K_FIND, K_FINDEND) and trace is not None and trace.optional_at_end and comp and not interp:
        return 'class:optional-alternative-at-end-of-token-list', 'optional-alternative-at-end-of-token-list'
    if comp is False and interp is True:
        nel = len([e for e in pat.split(' ') if e])
        lits = pattern_literals(pat)
        # a literal of the pattern names a token that is a variable (or an ordinary name) although the
        # spelling is a keyword / boolean literal in some language mode; variables first
        window = [t for t in toks[pos:pos + nel] if t.str in lits and t.str in KEYWORD_SPELLINGS]
        cands = [t for t in window if t.varId > 0] or [
            t for t in window if not t.isKeyword and not t.isBoolean and not (t.flags & 512)]
        if cands:
            return 'class:literal-not-typed-as-keyword:' + cands[0].str, 'literal-not-typed-as-keyword'
    return 'pattern:' + pat, 'other'


def doc_key(pat, toks, pos, trace):
    return 'doc:' + pat, 'pattern'
