"""Minimal reader of cppcheck .dump files: tokens by position and their value lists."""
import xml.etree.ElementTree as ET


class Tok:
    __slots__ = ('id', 'file', 'line', 'col', 'str', 'values', 'attrs')


def read(path, cfg_index=0):
    """-> (tokens list, by_pos dict (line, col) -> [Tok], values dict id -> [attrib dict], root element)"""
    tree = ET.parse(path)
    root = tree.getroot()
    dumps = root.findall('dump')
    if not dumps:
        return [], {}, {}, root
    d = dumps[cfg_index]
    toks = []
    by_pos = {}
    tl = d.find('tokenlist')
    if tl is not None:
        for t in tl.findall('token'):
            k = Tok()
            k.id = t.get('id')
            k.file = t.get('file')
            k.line = int(t.get('linenr', '0'))
            k.col = int(t.get('column', '0'))
            k.str = t.get('str')
            k.values = t.get('values')
            k.attrs = t.attrib
            toks.append(k)
            by_pos.setdefault((k.line, k.col), []).append(k)
    values = {}
    vf = d.find('valueflow')
    if vf is not None:
        for vs in vf.findall('values'):
            values[vs.get('id')] = [v.attrib for v in vs.findall('value')]
    return toks, by_pos, values, d
